// Hook-completeness audit: the bodies of the E1 scenarios run FREE (no scheduler) under ThreadSanitizer.
// The suppression list (tsan.supp) names exactly the accessor functions that carry a YK_VP hook for a non-atomic
// shared access (the intentional optimistic races of the Masstree protocol). Any other race report names a shared
// access the explorer cannot interleave at: the audit then fails and the hook list has to be extended.
#include <atomic>
#include <thread>
#include <vector>

#include "kvs.h"

extern "C" {
int yk_verif_on = 0;
void yk_verif_point(int, int, const void*, int, const char*, int) {}
void yk_verif_wait(int, const void*, const char*, int) {}
int yk_verif_yield(const char*, int) { return 0; }
void yk_verif_event(int, const void*, unsigned long long, unsigned long long) {}
void yk_verif_thread(int, int) {}
}

using namespace yakushima;

static std::string k3(int i) {
    char b[16];
    snprintf(b, sizeof(b), "%03d", i);
    return b;
}

int main(int argc, char** argv) {
    double seconds = argc > 1 ? atof(argv[1]) : 3.0;
    init();
    create_storage("s");
    const std::string P = "PPPPPPPP";
    std::atomic<bool> stop{false};
    std::atomic<long> ops{0};
    auto writer = [&](int id) {
        Token t{};
        while (enter(t) != status::OK) {}
        char v[8] = "value00";
        int round = 0;
        while (!stop.load()) {
            // fill and drain a range: splits, node removals, interior collapse; long keys: layer creation / removal / layer root change
            for (int i = 0; i < 48; ++i) {
                std::string k = (id == 0 ? k3(i * 2) : P + k3(i));
                put<char>(t, "s", k, v, 8);
                ops++;
            }
            for (int i = 0; i < 48; ++i) {
                std::string k = (id == 0 ? k3(i * 2) : P + k3(i));
                if ((round & 1) != 0) k = (id == 0 ? k3((47 - i) * 2) : P + k3(47 - i));
                remove(t, "s", k);
                ops++;
            }
            // overwrite
            put<char>(t, "s", "zz", v, 8);
            put<char>(t, "s", "zz", v, 4);
            round++;
            if ((round % 8) == 0) {
                leave(t);
                while (enter(t) != status::OK) {}
            }
        }
        leave(t);
    };
    auto reader = [&](int id) {
        Token t{};
        while (enter(t) != status::OK) {}
        long n = 0;
        while (!stop.load()) {
            std::pair<char*, std::size_t> out{};
            get<char>("s", k3(int(n % 96)), out);
            get<char>("s", P + k3(int(n % 48)), out);
            if (id == 0) {
                std::vector<std::tuple<std::string, char*, std::size_t>> tl;
                std::vector<std::pair<node_version64_body, node_version64*>> nv;
                scan<char>("s", "", scan_endpoint::INF, "", scan_endpoint::INF, tl, &nv, 0);
                scan<char>("s", "", scan_endpoint::INF, "", scan_endpoint::INF, tl, nullptr, 1, true);
            } else {
                iscan_context* ctx = nullptr;
                void* val = nullptr;
                // flat part only: the cursor's recovery inside replaced next layers is a known finding
                auto rc = iscan_open("s", "", scan_endpoint::INF, "P", scan_endpoint::EXCLUSIVE, (n & 1) != 0, false, ctx, val);
                int guard = 0;
                while (rc == status::OK && guard++ < 200) rc = iscan_next(ctx, val);
                if (ctx != nullptr) iscan_close(ctx);
            }
            n++;
            ops++;
            if ((n % 64) == 0) {
                leave(t);
                while (enter(t) != status::OK) {}
            }
        }
        leave(t);
    };
    std::vector<std::thread> th;
    th.emplace_back(writer, 0);
    th.emplace_back(writer, 1);
    th.emplace_back(reader, 0);
    th.emplace_back(reader, 1);
    std::this_thread::sleep_for(std::chrono::milliseconds(long(seconds * 1000)));
    stop.store(true);
    for (auto& t : th) t.join();
    fin();
    printf("audit: %ld operations\n", ops.load());
    return 0;
}
