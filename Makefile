# Builds every engine/harness binary from /repo's current working tree (headers) with hooks enabled.
REPO ?= /repo
CXX ?= g++
B := build
SESS ?= 8
COMMON := -std=c++17 -g -fno-omit-frame-pointer -I$(REPO)/include -DYAKUSHIMA_VERIF -DNDEBUG \
	-DYAKUSHIMA_MAX_PARALLEL_SESSIONS=$(SESS) -DYAKUSHIMA_EPOCH_TIME=40 -fno-access-control -Wno-unused-function
OPT ?= -O1
LIBS := -lglog -ltbb -lpthread

E1 := h_tree h_proto_s1 h_proto_s2 h_proto_s3 h_life
E2 := s_map s_storage
E3 := e_scan e_nvset e_misc
BINS := $(addprefix $(B)/,$(E1))
SBINS := $(addprefix $(B)/,$(E2) $(E3))

all: $(BINS) $(SBINS)

$(B)/sched.o: engine/sched.cpp engine/sched.h | $(B)
	$(CXX) -std=c++17 -O2 -g -Wall -Wextra -c $< -o $@

$(B)/alloc.o: engine/alloc.cpp engine/alloc.h | $(B)
	$(CXX) -std=c++17 -O2 -g -Wall -Wextra -c $< -o $@

$(B)/%.o: harness/%.cpp | $(B)
	$(CXX) $(COMMON) $(OPT) -MMD -MP -c $< -o $@

$(B)/h_proto_s1.o $(B)/h_proto_s2.o $(B)/h_proto_s3.o: $(B)/h_proto_s%.o: harness/h_proto.cpp | $(B)
	$(CXX) $(subst SESSIONS=$(SESS),SESSIONS=$*,$(COMMON)) $(OPT) -MMD -MP -c $< -o $@

$(B)/s_%.o: seq/s_%.cpp | $(B)
	$(CXX) $(COMMON) -O2 -MMD -MP -c $< -o $@

$(B)/e_%.o: enum/e_%.cpp | $(B)
	$(CXX) $(COMMON) -O2 -MMD -MP -c $< -o $@

$(SBINS): $(B)/%: $(B)/%.o $(B)/sched.o $(B)/alloc.o
	$(CXX) -o $@ $^ $(LIBS)

$(BINS): $(B)/h_%: $(B)/h_%.o $(B)/sched.o $(B)/alloc.o
	$(CXX) -o $@ $^ $(LIBS)

$(B):
	mkdir -p $(B)

clean:
	rm -rf $(B)

-include $(wildcard $(B)/*.d)

.PHONY: all clean
.SECONDARY:
