"""Which jobs decide which property. Every job is a harness binary under build/ printing JSON lines."""

SC_ASSUME = [
    "sequentially consistent interleavings of the hooked shared-memory accesses (no store-buffer / weaker reorderings)",
    "hook completeness: code between two hooks is atomic for the explorer (audited by the TSan pass, not proved)",
    "bounded: threads, operations per thread, tree shapes and preemption bound as listed in coverage",
]
E1_RULE = ("one case = one complete thread schedule of a (shape, program) scenario executed on the real code; "
           "non-trivial = at least one context switch away from a thread that is inside an API call; "
           "states = schedule-tree nodes not shared with the parent schedule, transitions = scheduling decisions")

PROPERTIES = {
    "C01": {
        "title": "point operations are linearizable",
        "jobs": [{"bin": "h_tree", "args": ["lin", "--oracle", "lin"], "shards": 16}],
        "accept": r"lin:|crash",
        "deadline": {"quick": 150, "thorough": 1500},
        "rule": E1_RULE, "assumptions": SC_ASSUME,
    },
    "C04": {
        "title": "concurrent scans are per-key consistent",
        "jobs": [{"bin": "h_tree", "args": ["scanc", "--oracle", "scan+lin"], "shards": 16}],
        "accept": r"scan:|lin:|crash",
        "deadline": {"quick": 150, "thorough": 1500},
        "rule": E1_RULE, "assumptions": SC_ASSUME,
    },
    "C06": {
        "title": "concurrent insert is seen or invalidates the node-version set",
        "jobs": [{"bin": "h_tree", "args": ["phantom", "--oracle", "phantom"], "shards": 16}],
        "accept": r"phantom:|crash",
        "deadline": {"quick": 150, "thorough": 1500},
        "rule": E1_RULE, "assumptions": SC_ASSUME,
    },
    "C07": {
        "title": "memory stays valid until the session leaves",
        "jobs": [{"bin": "h_proto_s3", "args": ["epoch"], "subshards": {"quick": 5, "thorough": 16}}],
        "accept": r"epoch:|crash",
        "deadline": {"quick": 200, "thorough": 2400},
        "rule": E1_RULE + "; coarse mode: tree operations are atomic steps, every access of the session table, the epoch, "
                "the gc epoch, the retire queues and the stop flags is a choice point; real epoch_thread()/gc_thread() bodies "
                "with wake-up horizons 3 and 2; a deviation is a preemption or not continuing after a yield",
        "assumptions": SC_ASSUME + ["coarse mode treats get/put/remove/scan as atomic steps"],
    },
    "C09": {
        "title": "operations complete, no lock left held",
        "jobs": [{"bin": "h_tree", "args": ["locks", "--oracle", "lock"], "shards": 16},
                 {"bin": "h_tree", "args": ["struct", "--oracle", "lock"], "shards": 4}],
        "accept": r"lock:|deadlock|livelock",
        "deadline": {"quick": 240, "thorough": 1500},
        "rule": E1_RULE + "; a deadlock is reported when no thread is enabled and 8 forced retry rounds of every stuck thread "
                "complete no write; a livelock when one execution exceeds the point horizon",
        "assumptions": SC_ASSUME + ["fairness: a spinning thread yields; schedules that run a spinner forever are excluded"],
    },
    "C14": {
        "title": "sessions are exclusive slots",
        "jobs": [{"bin": "h_proto_s1", "args": ["session"]}, {"bin": "h_proto_s2", "args": ["session"]},
                 {"bin": "h_proto_s3", "args": ["session"]}],
        "accept": r"session:|crash|deadlock|livelock",
        "deadline": {"quick": 150, "thorough": 1200},
        "rule": E1_RULE + "; stateful pruning on (per-thread observation hash, session table, epoch); capacities 1, 2, 3",
        "assumptions": SC_ASSUME,
    },
}
