"""Which jobs decide which property. Every job is a harness binary under build/ printing JSON lines."""

SC_ASSUME = [
    "sequentially consistent interleavings of the hooked shared-memory accesses (no store-buffer / weaker reorderings)",
    "hook completeness: code between two hooks is atomic for the explorer (audited by the TSan pass, not proved)",
    "bounded: threads, operations per thread, tree shapes and preemption bound as listed in coverage",
]
E1_RULE = ("one case = one complete thread schedule of a (shape, program) scenario executed on the real code; "
           "non-trivial = at least one context switch away from a thread that is inside an API call; "
           "states = schedule-tree nodes not shared with the parent schedule, transitions = scheduling decisions")

PROPERTIES = {
    "C01": {
        "title": "point operations are linearizable",
        "jobs": [{"bin": "h_tree", "args": ["lin", "--oracle", "lin"], "shards": 16}],
        "accept": r"lin:|crash",
        "deadline": {"quick": 300, "thorough": 1500},
        "rule": E1_RULE, "assumptions": SC_ASSUME,
    },
    "C04": {
        "title": "concurrent scans are per-key consistent",
        "jobs": [{"bin": "h_tree", "args": ["scanc", "--oracle", "scan+lin"], "shards": 16}],
        "accept": r"scan:|lin:|crash",
        "deadline": {"quick": 150, "thorough": 1500},
        "rule": E1_RULE, "assumptions": SC_ASSUME,
    },
    "C06": {
        "title": "concurrent insert is seen or invalidates the node-version set",
        "jobs": [{"bin": "h_tree", "args": ["phantom", "--oracle", "phantom"], "shards": 16}],
        "accept": r"phantom:|crash",
        "deadline": {"quick": 150, "thorough": 1500},
        "rule": E1_RULE, "assumptions": SC_ASSUME,
    },
    "C07": {
        "title": "memory stays valid until the session leaves",
        "jobs": [{"bin": "h_proto_s3", "args": ["epoch", "--skip", "+third"], "subshards": {"quick": 4, "thorough": 16}},
                 {"bin": "h_proto_s3", "args": ["epoch", "--only", "+third"], "subshards": {"quick": 12, "thorough": 16}}],
        "accept": r"epoch:|crash",
        "deadline": {"quick": 200, "thorough": 2400},
        "rule": E1_RULE + "; coarse mode: tree operations are atomic steps, every access of the session table, the epoch, "
                "the gc epoch, the retire queues and the stop flags is a choice point; real epoch_thread()/gc_thread() bodies "
                "with wake-up horizons 3 and 2; a deviation is a preemption or not continuing after a yield",
        "assumptions": SC_ASSUME + ["coarse mode treats get/put/remove/scan as atomic steps"],
    },
    "C09": {
        "title": "operations complete, no lock left held",
        "jobs": [{"bin": "h_tree", "args": ["locks", "--oracle", "lock"], "shards": 16},
                 {"bin": "h_tree", "args": ["struct", "--oracle", "lock"], "shards": 4},
                 {"bin": "h_tree", "args": ["iscanc", "--oracle", "lock", "--only", "/iscan(-inf,+inf,nv)|"], "shards": 16}],
        "accept": r"lock:|deadlock|livelock|crash",
        "deadline": {"quick": 240, "thorough": 1500},
        "rule": E1_RULE + "; programs: structural writers with and without an optimistic reader (get / full scan), and a forward cursor "
                "(iscan) next to every writer operation and to two-operation writers incl. a double root replacement above the cursor; "
                "a deadlock is reported when no thread is enabled and 8 forced retry rounds of every stuck thread "
                "complete no write; a livelock when one execution exceeds the point horizon",
        "assumptions": SC_ASSUME + ["fairness: a spinning thread yields; schedules that run a spinner forever are excluded"],
    },
    "C14": {
        "title": "sessions are exclusive slots",
        "jobs": [{"bin": "h_proto_s1", "args": ["session"]}, {"bin": "h_proto_s2", "args": ["session"]},
                 {"bin": "h_proto_s3", "args": ["session"]}],
        "accept": r"session:|crash|deadlock|livelock",
        "deadline": {"quick": 150, "thorough": 1200},
        "rule": E1_RULE + "; stateful pruning on (per-thread observation hash, session table, epoch); capacities 1, 2, 3",
        "assumptions": SC_ASSUME,
    },
    "C02": {
        "title": "single-threaded behaviour equals an ordered byte-string map",
        "jobs": [{"bin": "s_map", "args": ["all", "--oracle", "model"], "shards": 16}],
        "accept": r"model:|crash",
        "deadline": {"quick": 120, "thorough": 1300},
        "rule": "explicit-state search: a state is an operation history replayed on a fresh real tree, deduplicated by the canonical "
                "state string of the walker (node kinds, flags, permutation with slot numbers, keys, values, stale slots, links); "
                "closure over 4-key universes from the empty storage, bounded depth from 70 seed and drained shapes, re-insertion orders, "
                "binary keys; non-trivial = state with more than one node; transitions = operations applied to a frontier state",
        "assumptions": ["one session, no concurrency", "version counters are not part of the canonical state (a sequential future depends on them only through equality inside one call)"],
    },
    "C03": {
        "title": "range scan returns exactly the interval",
        "jobs": [{"bin": "e_scan", "args": ["scan"], "shards": 16}],
        "accept": r"scan:|crash",
        "deadline": {"quick": 120, "thorough": 600},
        "rule": "exhaustive product: 1024 subset trees of a 10-key universe (1-3 layers) + 16 multi-node seeds x all (l_key, l_end, r_key, r_end) "
                "over endpoints derived from the stored keys (k, k minus last byte, k+NUL, last byte +-1, cut at 8/16, empty, 0xFF x9, "
                "256/257/264/265 byte keys) x max_size {0,1,2,3} x right_to_left, by tree_instance and by name; every case is distinct",
        "assumptions": ["quiescent tree, one session", "endpoints are derived from stored keys, not all byte strings"],
    },
    "C05": {
        "title": "node-version sets detect later inserts",
        "jobs": [{"bin": "e_nvset", "args": [], "shards": 16}, {"bin": "e_scan", "args": ["iscan"], "shards": 16}, {"bin": "e_scan", "args": ["scan"], "shards": 16},
                 {"bin": "h_tree", "args": ["phantom", "--oracle", "phantom", "--only", ";put("], "shards": 8},
                 {"bin": "h_tree", "args": ["lin", "--oracle", "phantom", "--only", "get(", "--skip", "remove("], "shards": 16}],
        "accept": r"nvset|phantom:|crash",
        "deadline": {"quick": 150, "thorough": 900},
        "rule": "exhaustive product (tree, read, absent key of the covered interval), each on a fresh replay: read (scan with every range/max_size/"
                "direction, get-miss, iscan consumed for 1, 2, 4 or all entries), collect the set, insert, compare every recorded pair; plus "
                "non-emptiness of the set on the whole C03/C10 argument domain; non-trivial = case whose key lies in the covered interval; "
                "sets collected under concurrency: every schedule (preemption bound 2) of a narrow scan racing a writer that removes all "
                "in-range keys and inserts an out-of-range key into the same node, followed by a probe insert of every absent key of the interval; "
                "get-miss versions collected under concurrency: every schedule (bound 2) of get vs put / unique put (same and other keys, all lin shapes): "
                "if the key is stored at the end the checked version must be stale, else a probe insert of the key must make it stale",
        "assumptions": ["product part: quiescent tree, one session"] + SC_ASSUME,
    },
    "C08": {
        "title": "tree stays coherent",
        "jobs": [{"bin": "s_map", "args": ["all", "--oracle", "walk+api"], "shards": 12},
                 {"bin": "h_tree", "args": ["struct", "--oracle", "struct"], "shards": 4}],
        "accept": r"walk:|api:|struct:|crash",
        "deadline": {"quick": 150, "thorough": 1300},
        "rule": "sequential: every state of the C02 search is walked (sorted unique entries, separators bound subtrees, parent/child and "
                "prev/next links, no lock or dirty bit, no reachable deleted/retired node) and get = scan = reversed backward iscan = model; "
                "concurrent: the same walk at the end of every schedule of the structural-writer scenarios (58 programs: unlink vs split, collapse vs insert, "
                "sibling nodes emptied together and revived, layer-root replacement, IFULL cascade)",
        "assumptions": SC_ASSUME,
    },
    "C10": {
        "title": "cursor API enumerates the interval in both directions",
        "jobs": [{"bin": "e_scan", "args": ["iscan"], "shards": 8}, {"bin": "e_scan", "args": ["gap"], "shards": 12},
                 {"bin": "h_tree", "args": ["iscanc", "--oracle", "scan+phantom"], "shards": 16}],
        "accept": r"iscan:|phantom:|crash|deadlock|livelock",
        "deadline": {"quick": 180, "thorough": 1500},
        "rule": "sequential sentence: exhaustive product of the C03 domain x direction x early_abort through iscan_open/iscan_next/full_key(); "
                "pauses: (tree, direction, early_abort, pause position, one complete put/remove in the pause) exhaustively, stable keys must still be "
                "produced in order and with early_abort a modified node under the cursor must be reported; concurrent sentence: " + E1_RULE,
        "assumptions": SC_ASSUME,
    },
    "C11": {
        "title": "everything allocated is released",
        "jobs": [{"bin": "s_map", "args": ["all", "--oracle", "leak"], "shards": 8},
                 {"bin": "s_storage", "args": ["--oracle", "leak"], "shards": 8},
                 {"bin": "h_life", "args": [], "shards": 8},
                 {"bin": "h_tree", "args": ["struct", "--oracle", "leak"], "shards": 4},
                 {"bin": "h_tree", "args": ["ddl"], "shards": 4}],
        "accept": r"leak:|crash",
        "deadline": {"quick": 150, "thorough": 1300},
        "rule": "allocation monitor (all operator new/delete): after delete_storage/destroy/fin and the drain of the retire queues no node or "
                "value block allocated by the history is left, no block is freed twice, sized/aligned deletes match; checked on every history "
                "of the sequential searches, every lifecycle history and every schedule of the concurrent NOROOT/ddl/struct scenarios",
        "assumptions": ["library-owned memory = blocks allocated with an alignment argument (nodes, values) plus iscan contexts; glog/std temporaries are not counted"],
    },
    "C12": {
        "title": "put reports exactly the changed border nodes",
        "jobs": [{"bin": "e_misc", "args": ["putinfo"], "shards": 16}, {"bin": "s_map", "args": ["all", "--oracle", "putinfo"], "shards": 12}],
        "accept": r"putinfo:|crash",
        "deadline": {"quick": 120, "thorough": 900},
        "rule": "exhaustive product (seed shapes x new keys around every stored key, layer-creating keys, both overloads) + overwrite of every key; "
                "plus every put / unique put transition of the C02 history search (closure over slicing-edge universes, all seeds to depth 4-5): "
                "oracle = diff of the version words of all border nodes before/after against the reported modified / created nodes",
        "assumptions": ["quiescent tree, one session"],
    },
    "C13": {
        "title": "storages are isolated namespaces",
        "jobs": [{"bin": "s_storage", "args": ["--oracle", "storage"], "shards": 12},
                 {"bin": "h_tree", "args": ["ddl"], "shards": 4}],
        "accept": r"storage:|ddl:|crash|deadlock|livelock",
        "deadline": {"quick": 120, "thorough": 1300},
        "rule": "sequential: explicit-state search over create/delete/find/list/put/get/remove/scan by name, 6 names (empty, binary, 9 and 300 bytes, "
                "shared prefixes), model = map of maps, depth 6 (thorough 9); concurrent: create/delete/find races incl. delete with the epoch and gc threads "
                "scheduled alongside (write-after-free scan of reclaimed blocks), " + E1_RULE,
        "assumptions": SC_ASSUME,
    },
    "C15": {
        "title": "values round-trip; updates are atomic",
        "jobs": [{"bin": "e_misc", "args": ["values"], "shards": 16},
                 {"bin": "h_tree", "args": ["overwrite", "--oracle", "lin+scan"], "shards": 16}],
        "accept": r"value:|lin:|scan:|iscan:|crash",
        "deadline": {"quick": 120, "thorough": 900},
        "rule": "lengths {0..3 MiB+1 boundary classes} x alignments 1..4096 x {insert, overwrite} x {layer 0, layer 1} x get/scan/iscan/created_value_ptr, "
                "inline pointer values; concurrent: get / scan / cursor vs overwrite of the same key with a value of different and of equal length, every value "
                "pointer handed out re-read before the sessions leave, " + E1_RULE,
        "assumptions": SC_ASSUME + ["value lengths and alignments are boundary classes, not all 2^32 lengths"],
    },
    "C16": {
        "title": "init/fin cycles are repeatable",
        "jobs": [{"bin": "h_life", "args": [], "shards": 16}],
        "accept": r"life:|crash|deadlock|livelock",
        "deadline": {"quick": 150, "thorough": 900},
        "rule": "every lifecycle history I.<body>.F.I.P.F (and two repetitions for short bodies) with bodies over {create+put, enter+hold a value, leave, "
                "remove, remove from another session, epoch tick, gc tick, destroy, probe} up to length 3 (thorough 4), and I.P.F.J.<body>.F (body in a later "
                "cycle after a bare init(), length <= 4 / 5); real init()/fin(), the spawned epoch and gc threads are "
                "scheduler threads that run only on tick operations; one deterministic execution per history",
        "assumptions": ["background threads are driven by explicit ticks (no real time)"],
    },
    "C17": {
        "title": "version word protocol",
        "jobs": [{"bin": "e_misc", "args": ["version"]}, {"bin": "h_proto_s3", "args": ["version"]}],
        "accept": r"version:|crash|deadlock|livelock",
        "deadline": {"quick": 120, "thorough": 900},
        "rule": "values: 1600 boundary words x 27 operations, sequences up to length 2 (thorough 3) against independent field arithmetic; "
                "schedules: 2-3 lockers + 1-2 stable-version readers on one word, stateful exhaustive search (unbounded for 2 lockers x 1 round)",
        "assumptions": SC_ASSUME + ["counter values are boundary classes {0,1,2,2^29-2,2^29-1}"],
    },
    "C18": {
        "title": "key comparisons agree with bytewise order",
        "jobs": [{"bin": "e_misc", "args": ["compare"], "shards": 16}],
        "accept": r"compare:|crash",
        "deadline": {"quick": 60, "thorough": 600},
        "rule": "all pairs of the 16402 (slice,length) tuples over {00,01,FF} (quick: stride 37) for the key_tuple operators, all 767^2 pairs over {00,FF} "
                "for border lookup/rank and interior route/insert on hand-built nodes, rearrange on 3-subsets, split side decision and API order "
                "for windows of 15 binary keys + every 16th key",
        "assumptions": ["agreement with one reference total order implies transitivity/trichotomy"],
    },
    "C19": {
        "title": "permutation word encodes a valid ordering",
        "jobs": [{"bin": "e_misc", "args": ["perm"]}, {"bin": "h_proto_s3", "args": ["perm"]}],
        "accept": r"perm:|crash",
        "deadline": {"quick": 60, "thorough": 300},
        "rule": "closure of the real permutation under insert_rank(every rank, every free slot)/delete_rank for n <= 5 (thorough 6: 4.0M words), "
                "rotation families for n = 6..15, split sequence, split_dest; single atomic publication: reader vs writer schedules (all)",
        "assumptions": ["orderings for n > 6 are a structured family"],
    },
    "C20": {
        "title": "mem_usage reports the real shape and footprint",
        "jobs": [{"bin": "s_map", "args": ["all", "--oracle", "mem"], "shards": 16}, {"bin": "e_misc", "args": ["values"], "shards": 8}],
        "accept": r"mem_usage:|crash",
        "deadline": {"quick": 120, "thorough": 1300},
        "rule": "every canonical state of the C02 search: independent walk (nodes per depth, node sizes + allocated value sizes from the allocation monitor), used <= reserved",
        "assumptions": ["one session, quiescent"],
    },
}
