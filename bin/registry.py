"""Which jobs decide which property. Every job is a harness binary under build/ printing JSON lines."""

SC_ASSUME = [
    "sequentially consistent interleavings of the hooked shared-memory accesses (no store-buffer / weaker reorderings)",
    "hook completeness: code between two hooks is atomic for the explorer (audited by the TSan pass, not proved)",
    "bounded: threads, operations per thread, tree shapes and preemption bound as listed in coverage",
]

PROPERTIES = {
    "C01": {
        "title": "point operations are linearizable",
        "jobs": [
            {"bin": "h_tree", "args": ["lin", "--oracle", "lin"], "shards": 16},
        ],
        "deadline": {"quick": 120, "thorough": 1500},
        "rule": "one case = one complete thread schedule of a (shape, program) scenario run on the real tree; "
                "non-trivial = at least one context switch away from a thread that is inside an API call; "
                "states = schedule-tree nodes not shared with the parent schedule, transitions = scheduling decisions",
        "assumptions": SC_ASSUME,
    },
}
