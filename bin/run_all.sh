#!/bin/bash
# Runs every registered check of one tier in sequence and prints one line per property.
tier=${1:-quick}
cd "$(dirname "$0")/.."
rc_all=0
for p in C01 C02 C03 C04 C05 C06 C07 C08 C09 C10 C11 C12 C13 C14 C15 C16 C17 C18 C19 C20; do
  out=$(bin/check $p --tier $tier 2>&1); rc=$?
  echo "$p rc=$rc $(echo "$out" | grep '^check ' | tail -1 | cut -d: -f2-)"
  echo "$out" | grep -E '^VIOLATION|^KNOWN-FINDING|^INFRASTRUCTURE|^INCOMPLETE' | cut -c1-200 | head -5
  [ $rc -ne 0 ] && rc_all=1
done
exit $rc_all
