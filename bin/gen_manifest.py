#!/usr/bin/env python3
"""Refresh the descriptive fields of MANIFEST.json (level text, level note, engine list) from bin/registry.py.
Commands, techniques, hooks and not_applicable are left as they are."""
import json
import os
import sys

ROOT = os.path.dirname(os.path.dirname(os.path.abspath(__file__)))
sys.path.insert(0, os.path.join(ROOT, "bin"))
from registry import PROPERTIES  # noqa: E402

path = os.path.join(ROOT, "MANIFEST.json")
m = json.load(open(path))
for c in m["checks"]:
    p = PROPERTIES[c["property_id"]]
    c["engine"] = "+".join(sorted(set(j["bin"] for j in p["jobs"])))
    c["level_claimed"]["text"] = p["title"] + ": " + p.get("rule", "")
    c["level_note"] = "; ".join(p.get("assumptions", []))
json.dump(m, open(path, "w"), indent=1)
print("MANIFEST.json refreshed for", len(m["checks"]), "checks")
