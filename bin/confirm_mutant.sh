#!/bin/bash
# Confirm a sub-agent's property-breaking change in a fresh scratch worktree and store it under /verif/seeded/<name>.
#   bin/confirm_mutant.sh <name> <agent-worktree> <property-id>
# Steps: (1) patch applies to /repo HEAD, (2) library + test suite build, pinned tests pass (environment-broken ones excluded),
# (3) the demonstration fails with the change and passes without it. Results go to meta.json.
set -u
name=$1; src=$2; pid=$3
mdir=$src/MUTATION
out=/verif/seeded/$name
wt=/var/tmp/cm_$name
rm -rf "$wt"; git -C /repo worktree prune
git -C /repo worktree add -f "$wt" HEAD -q || exit 2
rmdir "$wt/third_party/googletest" 2>/dev/null; ln -s /repo/third_party/googletest "$wt/third_party/googletest"
applies=no; builds=no; tests=""; demo_with=""; demo_without=""
if git -C "$wt" apply --check "$mdir/patch.diff" 2>/dev/null; then applies=yes; fi
if [ $applies = yes ]; then
  # demonstration without the change
  cp -r "$mdir" "$wt/MUTATION"
  (cd "$wt/MUTATION" && YK_INCLUDE="$wt/include" INCLUDE_DIR="$wt/include" timeout 900 ./run.sh > "$wt/demo_without.log" 2>&1); demo_without=$?
  git -C "$wt" apply "$mdir/patch.diff"
  (cd "$wt/MUTATION" && YK_INCLUDE="$wt/include" INCLUDE_DIR="$wt/include" timeout 900 ./run.sh > "$wt/demo_with.log" 2>&1); demo_with=$?
  (cd "$wt" && cmake -G Ninja -B _b -DCMAKE_BUILD_TYPE=RelWithDebInfo -DCMAKE_CXX_FLAGS=-Wno-error -DBUILD_BENCHMARK=OFF -DBUILD_DOCUMENTS=OFF -DYAKUSHIMA_MAX_PARALLEL_SESSIONS=32 . > cfg.log 2>&1 && ninja -C _b -k 0 -j ${JOBS:-12} > build.log 2>&1)
  nbin=$(ls "$wt/_b/test" 2>/dev/null | grep -c '^yakushima_test-')
  [ "$nbin" -ge 70 ] && builds=yes
  (cd "$wt" && ctest --test-dir _b -j6 --timeout 300 -E "delete_100k|iscan_concurrent" > ctest.log 2>&1)
  tests=$(grep -E "tests passed|tests failed" "$wt/ctest.log" | tail -1)
  failed=$(grep -E "^\s+[0-9]+ - " "$wt/ctest.log" | tr -s ' ' | tr '\n' ';')
  if [ -n "$failed" ]; then
    # a failure may be a timeout of a multi-thread test on this loaded machine: run the failed tests once more, alone
    (cd "$wt" && ctest --test-dir _b -j1 --timeout 600 --rerun-failed > ctest2.log 2>&1)
    tests="$tests | failed: $failed | rerun alone: $(grep -E 'tests passed|tests failed' "$wt/ctest2.log" | tail -1)"
  fi
fi
mkdir -p "$out"
cp "$mdir/patch.diff" "$out/patch.diff"
for f in "$mdir"/*; do b=$(basename "$f"); [ "$b" != patch.diff ] && cp -r "$f" "$out/$b"; done
python3 - "$out" "$name" "$pid" "$applies" "$builds" "$tests" "$demo_with" "$demo_without" "${nbin:-0}" <<'EOF'
import json,sys
out,name,pid,applies,builds,tests,dw,dwo,nbin=sys.argv[1:10]
meta={"name":name,"property":pid,"patch_applies_to_repo_head":applies=="yes","test_binaries_built":int(nbin or 0),"builds":builds=="yes",
      "ctest_summary_with_change":tests,"ctest_command":"ctest --test-dir _b -j6 --timeout 300 -E 'delete_100k|iscan_concurrent' (71 binaries built with -DYAKUSHIMA_MAX_PARALLEL_SESSIONS=32)",
      "demo_exit_with_change":int(dw) if dw else None,"demo_exit_without_change":int(dwo) if dwo else None,
      "confirmed": applies=="yes" and builds=="yes" and ("100% tests passed" in tests.split("|")[0] or "rerun alone: 100% tests passed" in tests) and dw not in ("","0") and dwo=="0"}
json.dump(meta,open(out+"/meta.json","w"),indent=1)
print(json.dumps(meta,indent=1))
EOF
tail -3 "$wt/demo_with.log" 2>/dev/null | cut -c1-200
git -C /repo worktree remove --force "$wt"; git -C /repo worktree prune
