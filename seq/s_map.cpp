// E2 ykseq: explicit-state search over operation histories of ONE session on the real tree.
// state = history replayed on a fresh tree, deduplicated by the canonical state string of the walker.
// Oracles: ordered-map model on every status/value (C02), structural walker + get/scan/reverse-iscan agreement (C08),
// mem_usage accounting (C20), allocator balance after teardown (C11).
#include <chrono>
#include <deque>
#include <unordered_set>

#include "../engine/hmain.h"
#include "../engine/ykc.h"

using namespace yakushima;
using ykc::Model;

enum OK { O_PUT = 'P', O_UPUT = 'U', O_GET = 'G', O_REMOVE = 'R' };
struct OpC {
    char kind;
    std::string key;
    int gen;
};
struct Hist {
    std::string seed;
    std::vector<OpC> ops;
};

static std::string hist_str(const Hist& h) {
    std::string s = "seed=" + h.seed;
    for (auto& o : h.ops) {
        s += ";";
        s.push_back(o.kind);
        s += ":";
        static const char* d = "0123456789abcdef";
        for (unsigned char c : o.key) {
            s.push_back(d[c >> 4]);
            s.push_back(d[c & 15]);
        }
        s += ":" + std::to_string(o.gen);
    }
    return s;
}
static Hist hist_parse(const std::string& s) {
    Hist h;
    std::istringstream in(s);
    std::string tok;
    while (std::getline(in, tok, ';')) {
        if (tok.rfind("seed=", 0) == 0) {
            h.seed = tok.substr(5);
            continue;
        }
        if (tok.size() < 2) continue;
        OpC o;
        o.kind = tok[0];
        size_t c2 = tok.find(':', 2);
        std::string hk = tok.substr(2, c2 - 2);
        for (size_t i = 0; i + 1 < hk.size(); i += 2) o.key.push_back(char(std::stoi(hk.substr(i, 2), nullptr, 16)));
        o.gen = atoi(tok.substr(c2 + 1).c_str());
        h.ops.push_back(o);
    }
    return h;
}

struct Seeds {
    std::vector<ykc::Shape> shapes;
    Seeds() {
        shapes = ykc::all_shapes();
        shapes.push_back(ykc::shape_ifull());
        {
            // two interior levels: one more border split under a full interior root
            ykc::Shape s = ykc::shape_ifull();
            s.name = "II";
            for (int i = 136; i <= 150; ++i) {
                char b[8];
                snprintf(b, sizeof(b), "%03d", i);
                s.inserts.emplace_back(b);
            }
            s.pal = {{"in", "064"}, {"in2", "140"}, {"new", "151"}, {"new2", "0645"}, {"edge", "150"}, {"first", "001"}};
            shapes.push_back(s);
        }
        {
            // layer 0 border that holds only links
            ykc::Shape s;
            s.name = "LINKSONLY";
            s.inserts = {"AAAAAAAAx", "BBBBBBBBx", "CCCCCCCCx"};
            s.pal = {{"inL", "BBBBBBBBx"}, {"new", "B"}, {"new2", "BBBBBBBB"}, {"newL", "BBBBBBBBy"}, {"new3", "D"}};
            shapes.push_back(s);
        }
        {
            // separators whose zero-padded slices are byte-identical: keys that differ only in trailing 0x00 bytes, spread over
            // several border nodes (length is the only tie-break in interior routing / insertion)
            auto A = [](size_t n) { return std::string("a") + std::string(n - 1, '\0'); };
            ykc::Shape s;
            s.name = "ZPAD";
            s.inserts = {"0"};
            for (size_t n = 1; n <= 9; ++n) s.inserts.push_back(A(n));
            for (const char* k : {"b", "c", "d", "e", "f", "g", "1", "2", "3", "4", "5", "6", "7", "8"}) s.inserts.emplace_back(k);
            s.pal = {{"in", A(1)}, {"in2", A(4)}, {"in3", A(8)}, {"inL", A(9)}, {"new", A(10)}, {"new2", "9"}};
            shapes.push_back(s);
            ykc::Shape t;
            t.name = "ZPAD2";
            // the same family under a common 8-byte prefix (layer 1) and with 0xFF padding neighbours
            t.inserts = {"0"};
            for (size_t n = 1; n <= 9; ++n) t.inserts.push_back(ykc::P8() + A(n));
            for (const char* k : {"b", "c", "d", "e", "f", "g", "1", "2", "3", "4", "5", "6", "7", "8"}) t.inserts.push_back(ykc::P8() + k);
            t.pal = {{"in", ykc::P8() + A(1)}, {"in2", ykc::P8() + A(5)}, {"in3", ykc::P8() + A(8)}, {"inL", ykc::P8() + A(9)}, {"new", ykc::P8() + "9"}};
            shapes.push_back(t);
        }
        for (int r : {7, 8, 9}) {
            // full border whose rank-r entry is a link; the palette holds the 8-byte key with the same slice (tuples (S,8) / (S,9))
            ykc::Shape s;
            s.name = "B15LINK" + std::to_string(r);
            for (int i = 0; i < 15; ++i) {
                char buf[16];
                snprintf(buf, sizeof(buf), "kkkkkk%02d", i);
                s.inserts.push_back(i == r ? std::string(buf) + "tail" : std::string(buf));
            }
            char buf[16];
            snprintf(buf, sizeof(buf), "kkkkkk%02d", r);
            s.pal = {{"new", std::string(buf)}, {"inL", std::string(buf) + "tail"}, {"newL", std::string(buf) + "t"}, {"in", "kkkkkk00"}, {"new2", "kkkkkk99"}};
            shapes.push_back(s);
        }
        // drained variants: all keys removed again in ascending / descending / middle-out order
        std::vector<ykc::Shape> drained;
        for (auto& sh : shapes) {
            if (sh.inserts.empty()) continue;
            std::set<std::string> keys(sh.inserts.begin(), sh.inserts.end());
            for (auto& r : sh.removes) keys.erase(r);
            std::vector<std::string> ks(keys.begin(), keys.end());
            if (ks.empty()) continue;
            for (int order = 0; order < 3; ++order) {
                ykc::Shape d = sh;
                d.name = "DRAINED_" + sh.name + (order == 0 ? "_asc" : (order == 1 ? "_desc" : "_mid"));
                std::vector<std::string> o = ks;
                if (order == 1) std::reverse(o.begin(), o.end());
                if (order == 2) {
                    std::vector<std::string> m;
                    size_t lo = o.size() / 2, hi = lo + 1;
                    m.push_back(o[lo]);
                    while (lo > 0 || hi < o.size()) {
                        if (hi < o.size()) m.push_back(o[hi++]);
                        if (lo > 0) m.push_back(o[--lo]);
                    }
                    o = m;
                }
                for (auto& k : o) d.removes.push_back(k);
                drained.push_back(d);
            }
        }
        for (auto& d : drained) shapes.push_back(d);
    }
    const ykc::Shape* find(const std::string& n) const {
        for (auto& s : shapes) {
            if (s.name == n) return &s;
        }
        return nullptr;
    }
};
static const Seeds& seeds() {
    static Seeds s;
    return s;
}

enum Oracle { OR_MODEL = 1, OR_WALK = 2, OR_API = 4, OR_MEM = 8, OR_LEAK = 16, OR_ALL = 31, OR_PUTINFO = 32 };
static unsigned g_oracles = OR_ALL;

struct RunOut {
    std::string canon;
    std::string error_symptom, error_detail;
    bool nontrivial = false; // tree has more than one node
};

static bool step_ok(const OpC& o, status st, const ykc::GetResult& g, Model& m, std::string& err) {
    auto it = m.find(o.key);
    bool present = it != m.end();
    switch (o.kind) {
        case O_GET:
            if (!present) {
                if (st != status::WARN_NOT_EXIST) err = std::string("get of absent key returned ") + ykc::st_name(st);
            } else if (st != status::OK) {
                err = std::string("get of present key returned ") + ykc::st_name(st);
            } else if (g.null_ok) {
                err = "get returned OK with null pointer";
            } else if (g.bytes != it->second) {
                err = "get returned wrong bytes " + ykc::hex(g.bytes) + " want " + ykc::hex(it->second);
            }
            break;
        case O_PUT:
            if (st != status::OK) err = std::string("put returned ") + ykc::st_name(st);
            m[o.key] = ykc::val_of(o.key, o.gen);
            break;
        case O_UPUT:
            if (present) {
                if (st != status::WARN_UNIQUE_RESTRICTION) err = std::string("unique put of present key returned ") + ykc::st_name(st);
            } else {
                if (st != status::OK) err = std::string("unique put of absent key returned ") + ykc::st_name(st);
                m[o.key] = ykc::val_of(o.key, o.gen);
            }
            break;
        case O_REMOVE:
            if (present) {
                if (st != status::OK) err = std::string("remove of present key returned ") + ykc::st_name(st);
                m.erase(o.key);
            } else if (st == status::OK || (st != status::OK_NOT_FOUND && st != status::OK_ROOT_IS_NULL)) {
                err = std::string("remove of absent key returned ") + ykc::st_name(st);
            }
            break;
        default: break;
    }
    return err.empty();
}

static const char* kStorage = "s";

static RunOut run_hist(const Hist& h, bool want_canon, bool full_oracles) {
    RunOut out;
    auto describe = [&h]() { return hist_str(h); };
    hm::CrashScope crash_scope(describe);
    ykc::sequential_teardown_mode();
    ykc::reset_library_statics();
    ykalloc::clear_errors();
    ykalloc::begin_tracking();
    auto fail = [&](const std::string& s, const std::string& d) {
        if (out.error_symptom.empty()) {
            out.error_symptom = s;
            out.error_detail = d;
        }
    };
    create_storage(kStorage);
    tree_instance* ti = nullptr;
    find_storage(kStorage, &ti);
    Token tk{};
    enter(tk);
    Model m;
    const ykc::Shape* sh = seeds().find(h.seed);
    std::vector<OpC> all;
    if (sh != nullptr) {
        if (sh->name == "NOROOT") {
            // a storage created through the API always has a root; NOROOT is the bare tree_instance state
            ykc::destroy_tree(ti);
        }
        for (auto& k : sh->inserts) all.push_back({O_PUT, k, 0});
        for (auto& k : sh->removes) all.push_back({O_REMOVE, k, 0});
    }
    size_t seed_len = all.size();
    for (auto& o : h.ops) all.push_back(o);
    std::vector<std::string> universe;
    for (size_t i = 0; i < all.size(); ++i) {
        const OpC& o = all[i];
        if (std::find(universe.begin(), universe.end(), o.key) == universe.end()) universe.push_back(o.key);
        status st{};
        ykc::GetResult g;
        // C20: used bytes grow with every occupied slot (checked on the explored transition when no node is created or removed)
        bool track_mu = (g_oracles & OR_MEM) != 0 && full_oracles && i + 1 == all.size() && (o.kind == O_PUT || o.kind == O_UPUT) &&
                        ti->root_ != nullptr && m.count(o.key) == 0;
        memory_usage_stack mu_before;
        if (track_mu) mu_before = mem_usage(kStorage);
        switch (o.kind) {
            case O_GET:
                g = ykc::t_get(ti, o.key);
                st = g.st;
                break;
            case O_PUT:
            case O_UPUT:
                if ((g_oracles & OR_PUTINFO) != 0 && full_oracles && i + 1 == all.size() && ti->root_ != nullptr) {
                    // C12 on the explored transition: the reported nodes against the version words of all border nodes
                    std::string e = ykc::put_info_check(tk, ti, o.key, ykc::val_of(o.key, o.gen), o.kind == O_UPUT, m.count(o.key) != 0, st);
                    if (!e.empty()) fail(e.substr(0, e.find('|')), e.substr(e.find('|') + 1));
                } else {
                    st = ykc::t_put(tk, ti, o.key, ykc::val_of(o.key, o.gen), o.kind == O_UPUT);
                }
                break;
            case O_REMOVE: st = ykc::t_remove(tk, ti, o.key); break;
            default: break;
        }
        if (track_mu && st == status::OK) {
            memory_usage_stack mu_after = mem_usage(kStorage);
            bool same_shape = mu_after.size() == mu_before.size();
            std::size_t ub = 0, ua = 0;
            for (std::size_t l = 0; same_shape && l < mu_after.size(); ++l) {
                if (std::get<0>(mu_after[l]) != std::get<0>(mu_before[l])) same_shape = false;
                ub += std::get<1>(mu_before[l]);
                ua += std::get<1>(mu_after[l]);
            }
            if (same_shape && ua <= ub) fail("mem_usage:used_not_growing", "a key was added without creating a node but used bytes went " + std::to_string(ub) + " -> " + std::to_string(ua));
        }
        std::string err;
        if ((g_oracles & OR_MODEL) != 0 && !step_ok(o, st, g, m, err)) {
            fail("model:" + std::string(1, o.kind), "step " + std::to_string(i) + (i < seed_len ? " (seed)" : "") + ": " + err);
        } else if ((g_oracles & OR_MODEL) == 0) {
            std::string e2;
            step_ok(o, st, g, m, e2);
        }
        // walker after every step of the explored suffix (the seed prefix was walked when it was explored itself)
        if (i + 1 >= seed_len && i + 1 < all.size() && (g_oracles & OR_WALK) != 0 && full_oracles) {
            std::string e = ykc::check_tree(ti, m);
            if (!e.empty()) fail("walk:" + e.substr(0, 30), "after step " + std::to_string(i) + ": " + e);
        }
    }
    ykc::WalkOut w;
    w.want_canon = want_canon;
    if ((g_oracles & (OR_WALK | OR_API)) != 0 || want_canon) {
        std::string e = ykc::check_tree(ti, m, &w);
        if (!e.empty() && (g_oracles & OR_WALK) != 0) fail("walk:" + e.substr(0, 30), "final state: " + e);
        out.nontrivial = w.nodes.size() > 1;
        out.canon = w.canon;
    }
    if ((g_oracles & OR_API) != 0 && full_oracles && out.error_symptom.empty()) {
        std::string e = ykc::api_agreement(ti, m, universe);
        if (!e.empty()) fail("api:disagreement", e);
    }
    if ((g_oracles & OR_MEM) != 0 && full_oracles && ti->root_ != nullptr) {
        std::string e = ykc::check_mem_usage(ti, kStorage);
        if (!e.empty()) fail("mem_usage:mismatch", e);
    }
    leave(tk);
    // release everything the way the library does it: delete_storage + drain of the retire queues (fin() without threads)
    if (ti->root_ == nullptr) {
        // NOROOT seed: give delete_storage a tree it can handle
    }
    status ds = delete_storage(kStorage);
    if (ds != status::OK) fail("storage:delete", std::string("delete_storage returned ") + ykc::st_name(ds));
    destroy();
    ykc::drain_retired();
    ykalloc::end_tracking();
    if ((g_oracles & OR_LEAK) != 0) {
        if (!ykalloc::errors().empty()) fail("leak:allocator_error", ykalloc::errors()[0]);
        long live = ykalloc::live_aligned();
        if (live != 0) fail("leak:blocks_left", std::to_string(live) + " node/value blocks still allocated after delete_storage+destroy+drain");
    }
    return out;
}

struct Key128 {
    uint64_t a, b;
    bool operator==(const Key128& o) const { return a == o.a && b == o.b; }
};
struct Key128H {
    size_t operator()(const Key128& k) const { return size_t(k.a ^ (k.b * 0x9e3779b97f4a7c15ULL)); }
};
static Key128 digest(const std::string& s) {
    uint64_t a = 1469598103934665603ULL, b = 0x9e3779b97f4a7c15ULL;
    for (unsigned char c : s) {
        a = (a ^ c) * 1099511628211ULL;
        b = (b + c) * 0xff51afd7ed558ccdULL;
        b ^= b >> 29;
    }
    return {a, b};
}

struct Report {
    std::string part;
    long states = 0, transitions = 0, evaluations = 0, nontrivial = 0;
    int depth_completed = 0;
    bool exhaustive = true;
    bool closure = false;
    std::vector<std::string> samples;
    std::vector<std::pair<std::string, std::string>> viol; // symptom, detail + repro
    std::vector<std::string> repro;
    double wall = 0;
};

static void print(const Report& r) {
    printf("{\"engine\":\"ykseq\",\"part\":\"%s\",\"scenario\":\"%s\",\"sigclass\":\"seq\",\"states\":%ld,\"transitions\":%ld,\"evaluations\":%ld,"
           "\"nontrivial\":%ld,\"depth_completed\":%d,\"exhaustive\":%s,\"closure\":%s,\"wall\":%.2f,\"samples\":[",
           hm::jesc(r.part).c_str(), hm::jesc(r.part).c_str(), r.states, r.transitions, r.evaluations, r.nontrivial, r.depth_completed,
           r.exhaustive ? "true" : "false", r.closure ? "true" : "false", r.wall);
    for (size_t i = 0; i < r.samples.size(); ++i) printf("%s\"%s\"", i != 0 ? "," : "", hm::jesc(r.samples[i]).c_str());
    printf("],\"violations\":[");
    for (size_t i = 0; i < r.viol.size(); ++i) {
        printf("%s{\"symptom\":\"%s\",\"detail\":\"%s\",\"repro\":\"%s\"}", i != 0 ? "," : "", hm::jesc(r.viol[i].first).c_str(),
               hm::jesc(r.viol[i].second).c_str(), hm::jesc(r.repro[i]).c_str());
    }
    printf("]}\n");
    fflush(stdout);
}

// BFS from a start history over an alphabet up to max_depth (0 = until closure)
static Report bfs(const std::string& part, const std::string& seed, const std::vector<OpC>& alphabet, int max_depth, double deadline) {
    Report rp;
    rp.part = part;
    hm::crash_part(part, "seq");
    double t0 = ykmc::mono_now();
    std::unordered_set<Key128, Key128H> seen;
    std::deque<Hist> frontier;
    Hist h0;
    h0.seed = seed;
    RunOut r0 = run_hist(h0, true, true);
    rp.evaluations++;
    if (!r0.error_symptom.empty()) {
        rp.viol.emplace_back(r0.error_symptom, r0.error_detail);
        rp.repro.push_back(hist_str(h0));
        rp.exhaustive = false;
        rp.wall = ykmc::mono_now() - t0;
        return rp;
    }
    seen.insert(digest(r0.canon));
    rp.states = 1;
    frontier.push_back(h0);
    int depth = 0;
    while (!frontier.empty()) {
        if (max_depth > 0 && depth >= max_depth) break;
        std::deque<Hist> next;
        for (auto& h : frontier) {
            for (auto& o : alphabet) {
                if (deadline > 0 && ykmc::mono_now() > deadline) {
                    rp.exhaustive = false;
                    goto done;
                }
                Hist h2 = h;
                h2.ops.push_back(o);
                RunOut r = run_hist(h2, true, true);
                rp.evaluations++;
                rp.transitions++;
                if (!r.error_symptom.empty()) {
                    if (rp.viol.size() < 5) {
                        rp.viol.emplace_back(r.error_symptom, r.error_detail + " || history: " + hist_str(h2));
                        rp.repro.push_back(hist_str(h2));
                    }
                    continue; // do not expand broken states
                }
                if (seen.insert(digest(r.canon)).second) {
                    rp.states++;
                    if (r.nontrivial) rp.nontrivial++;
                    if (rp.samples.size() < 3 && (rp.states == 2 || rp.states == 40 || rp.states == 400)) rp.samples.push_back(hist_str(h2));
                    next.push_back(h2);
                }
            }
        }
        frontier.swap(next);
        depth++;
        rp.depth_completed = depth;
        if (!rp.viol.empty()) break;
    }
    if (frontier.empty()) rp.closure = true;
done:
    rp.wall = ykmc::mono_now() - t0;
    return rp;
}

static std::vector<OpC> alphabet_for(const std::vector<std::string>& keys) {
    std::vector<OpC> a;
    for (auto& k : keys) {
        a.push_back({O_PUT, k, 1});
        a.push_back({O_PUT, k, 3}); // a second upsert value: overwriting a stored value with a different one must be visible
        a.push_back({O_UPUT, k, 2});
        a.push_back({O_GET, k, 0});
        a.push_back({O_REMOVE, k, 0});
    }
    return a;
}

int main(int argc, char** argv) {
    hm::Args a = hm::parse(argc, argv);
    hm::install_crash_reporter("ykseq");
    std::string part = a.extra.empty() ? "all" : a.extra[0];
    if (a.oracle != "all") {
        g_oracles = 0;
        if (a.oracle.find("model") != std::string::npos) g_oracles |= OR_MODEL;
        if (a.oracle.find("walk") != std::string::npos) g_oracles |= OR_WALK;
        if (a.oracle.find("api") != std::string::npos) g_oracles |= OR_API;
        if (a.oracle.find("mem") != std::string::npos) g_oracles |= OR_MEM;
        if (a.oracle.find("leak") != std::string::npos) g_oracles |= OR_LEAK;
        if (a.oracle.find("putinfo") != std::string::npos) g_oracles |= OR_PUTINFO;
    }
    if (!a.replay_scenario.empty()) {
        Hist h = hist_parse(a.replay_scenario);
        RunOut r1 = run_hist(h, true, true);
        RunOut r2 = run_hist(h, true, true);
        bool same = r1.error_symptom == r2.error_symptom && r1.canon == r2.canon;
        printf("{\"replay\":\"%s\",\"symptom\":\"%s\",\"detail\":\"%s\",\"deterministic\":%s}\n", hm::jesc(a.replay_scenario).c_str(),
               hm::jesc(r1.error_symptom).c_str(), hm::jesc(r1.error_detail).c_str(), same ? "true" : "false");
        if (!same) return 2;
        return r1.error_symptom.empty() ? 0 : 1;
    }
    double t0 = ykmc::mono_now();
    double deadline = a.deadline_s > 0 ? t0 + a.deadline_s : 0;
    bool quick = a.tier == "quick";
    int idx = 0;
    bool bad = false;
    auto mine = [&]() { return (idx++ % a.nshards) == a.shard; };
    if (part == "closure" || part == "all") {
        // closure over a 7-key universe chosen for slicing edge cases; one BFS per key subset family to keep it finite and parallel
        std::string k8 = "ABCDEFGH";
        std::vector<std::vector<std::string>> universes = {
                {std::string(""), std::string("\0", 1), std::string("\0\0", 2), k8},
                {k8, k8 + std::string("\0", 1), k8 + "I", k8 + k8 + "Z"},
                {std::string(""), k8, k8 + "I", k8 + k8 + "Z"},
                {std::string("\0", 1), k8 + std::string("\0", 1), k8 + k8 + "Z", std::string("\xff", 1)},
        };
        if (!quick) universes.push_back({std::string(""), std::string("\0", 1), std::string("\0\0", 2), k8, k8 + std::string("\0", 1), k8 + "I", k8 + k8 + "Z"});
        for (size_t u = 0; u < universes.size(); ++u) {
            if (!mine()) continue;
            Report r = bfs("closure/u" + std::to_string(u), "EMPTY", alphabet_for(universes[u]), 0, deadline);
            print(r);
            bad |= !r.viol.empty();
        }
    }
    if (part == "seeds" || part == "all") {
        for (auto& sh : seeds().shapes) {
            if (!a.only.empty() && sh.name.find(a.only) == std::string::npos) continue;
            if (!mine()) continue;
            std::vector<std::string> keys;
            for (auto& kv : sh.pal) {
                if (kv.first == "pfx") continue;
                if (std::find(keys.begin(), keys.end(), kv.second) == keys.end()) keys.push_back(kv.second);
            }
            bool drained = sh.name.rfind("DRAINED_", 0) == 0;
            if (drained) {
                // re-insert the original key set: use the first, middle and last original key plus one absent key
                std::set<std::string> ks(sh.inserts.begin(), sh.inserts.end());
                std::vector<std::string> v(ks.begin(), ks.end());
                keys = {v.front(), v[v.size() / 2], v.back()};
                if (sh.pal.count("new") != 0) keys.push_back(sh.pal.at("new"));
            }
            if (keys.size() > 6) keys.resize(6);
            int depth = quick ? (drained ? 3 : 4) : (drained ? 4 : 5);
            if (sh.inserts.size() > 100) depth -= 1;
            Report r = bfs("seeds/" + sh.name, sh.name, alphabet_for(keys), depth, deadline);
            print(r);
            bad |= !r.viol.empty();
        }
    }
    if (part == "reinsert" || part == "all") {
        // remove everything, re-insert everything in ascending / descending / interleaved order: same content as a fresh tree
        for (auto& sh : seeds().shapes) {
            if (sh.name.rfind("DRAINED_", 0) != 0) continue;
            if (!mine()) continue;
            Report rp;
            rp.part = "reinsert/" + sh.name;
            hm::crash_part(rp.part, "seq");
            double s0 = ykmc::mono_now();
            std::set<std::string> ks(sh.inserts.begin(), sh.inserts.end());
            std::vector<std::string> v(ks.begin(), ks.end());
            for (int order = 0; order < 3; ++order) {
                Hist h;
                h.seed = sh.name;
                std::vector<std::string> o = v;
                if (order == 1) std::reverse(o.begin(), o.end());
                if (order == 2) {
                    std::vector<std::string> m;
                    for (size_t i = 0; i < o.size(); i += 2) m.push_back(o[i]);
                    for (size_t i = 1; i < o.size(); i += 2) m.push_back(o[i]);
                    o = m;
                }
                for (auto& k : o) h.ops.push_back({O_UPUT, k, 1});
                for (auto& k : o) h.ops.push_back({O_GET, k, 0});
                RunOut r = run_hist(h, false, true);
                rp.evaluations++;
                rp.transitions += long(h.ops.size());
                rp.states++;
                rp.nontrivial++;
                if (rp.samples.empty()) rp.samples.push_back(hist_str(h).substr(0, 300));
                if (!r.error_symptom.empty() && rp.viol.size() < 3) {
                    rp.viol.emplace_back(r.error_symptom, r.error_detail);
                    rp.repro.push_back(hist_str(h));
                }
            }
            rp.wall = ykmc::mono_now() - s0;
            print(rp);
            bad |= !rp.viol.empty();
        }
    }
    if (part == "binary" || part == "all") {
        if (mine()) {
            Report rp;
            rp.part = "binary";
            hm::crash_part(rp.part, "seq");
            double s0 = ykmc::mono_now();
            std::vector<std::string> keys;
            for (int off = 0; off <= 16; ++off) {
                for (unsigned char b : {0x00, 0xff}) {
                    std::string k(17, 'k');
                    k[size_t(off)] = char(b);
                    keys.push_back(k);
                    keys.push_back(k.substr(0, size_t(off) + 1));
                }
            }
            keys.push_back(std::string(30 * 1024, 'L'));
            keys.push_back(std::string(30 * 1024, 'L') + "x");
            std::sort(keys.begin(), keys.end());
            keys.erase(std::unique(keys.begin(), keys.end()), keys.end());
            for (int order = 0; order < 2; ++order) {
                Hist h;
                h.seed = "EMPTY";
                std::vector<std::string> o = keys;
                if (order == 1) std::reverse(o.begin(), o.end());
                for (auto& k : o) h.ops.push_back({O_UPUT, k, 1});
                for (auto& k : o) h.ops.push_back({O_GET, k, 0});
                for (auto& k : o) h.ops.push_back({O_UPUT, k, 2});
                for (size_t i = 0; i < o.size(); i += 2) h.ops.push_back({O_REMOVE, o[i], 0});
                for (auto& k : o) h.ops.push_back({O_GET, k, 0});
                for (auto& k : o) h.ops.push_back({O_PUT, k, 2});
                for (auto& k : o) h.ops.push_back({O_REMOVE, k, 0});
                for (auto& k : o) h.ops.push_back({O_GET, k, 0});
                RunOut r = run_hist(h, false, false);
                rp.evaluations++;
                rp.transitions += long(h.ops.size());
                rp.states++;
                rp.nontrivial++;
                if (rp.samples.empty()) rp.samples.push_back("binary keys: 0x00/0xFF at offsets 0..16, prefixes, 30 KiB key; " + std::to_string(h.ops.size()) + " ops");
                if (!r.error_symptom.empty() && rp.viol.size() < 3) {
                    rp.viol.emplace_back(r.error_symptom, r.error_detail);
                    rp.repro.push_back("binary-order-" + std::to_string(order));
                }
            }
            rp.wall = ykmc::mono_now() - s0;
            print(rp);
            bad |= !rp.viol.empty();
        }
    }
    return bad ? 1 : 0;
}
