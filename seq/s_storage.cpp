// E2 ykseq for C13 (and C11): explicit-state search over storage (DDL) and data operations by name,
// model = map from names to ordered maps. State = history replayed on a fresh library state.
#include <deque>
#include <unordered_set>

#include "../engine/hmain.h"
#include "../engine/ykc.h"

using namespace yakushima;
using MM = std::map<std::string, ykc::Model>;

enum K { CREATE = 'C', DELETE = 'D', FIND = 'F', LIST = 'L', PUT = 'P', GET = 'G', REMOVE = 'R', SCAN = 'S' };
struct OpS {
    char k;
    int name; // index into names
    int key;  // index into keys
    int gen;
};

static std::vector<std::string> g_names, g_keys;

static std::string hist_str(const std::vector<OpS>& h) {
    std::string s;
    for (auto& o : h) {
        if (!s.empty()) s += ",";
        s.push_back(o.k);
        s += std::to_string(o.name) + "." + std::to_string(o.key) + "." + std::to_string(o.gen);
    }
    return s;
}
static std::vector<OpS> hist_parse(const std::string& s) {
    std::vector<OpS> h;
    std::istringstream in(s);
    std::string tok;
    while (std::getline(in, tok, ',')) {
        if (tok.empty()) continue;
        OpS o{};
        o.k = tok[0];
        sscanf(tok.c_str() + 1, "%d.%d.%d", &o.name, &o.key, &o.gen);
        h.push_back(o);
    }
    return h;
}

struct Out {
    std::string canon, sym, detail;
    bool nontrivial = false;
};

static Out run(const std::vector<OpS>& h, bool leak_oracle) {
    Out out;
    auto describe = [&h]() { return hist_str(h); };
    hm::CrashScope crash_scope(describe);
    ykc::sequential_teardown_mode();
    ykc::reset_library_statics();
    ykalloc::clear_errors();
    ykalloc::begin_tracking();
    MM model;
    auto fail = [&](const std::string& s, const std::string& d) {
        if (out.sym.empty()) {
            out.sym = s;
            out.detail = d;
        }
    };
    Token tk{};
    enter(tk);
    for (size_t i = 0; i < h.size(); ++i) {
        const OpS& o = h[i];
        const std::string& n = g_names[size_t(o.name)];
        const std::string& k = g_keys[size_t(o.key)];
        auto mit = model.find(n);
        bool exists = mit != model.end();
        std::string where = "step " + std::to_string(i) + " " + std::string(1, o.k) + "(" + ykc::hex(n) + "," + ykc::hex(k) + ")";
        switch (o.k) {
            case CREATE: {
                status st = create_storage(n);
                if (exists) {
                    if (st == status::OK) fail("storage:create_existing_ok", where + ": create of an existing name returned OK");
                } else {
                    if (st != status::OK) fail("storage:create_failed", where + ": " + ykc::st_name(st));
                    model[n];
                }
                break;
            }
            case DELETE: {
                status st = delete_storage(n);
                if (exists) {
                    if (st != status::OK) fail("storage:delete_failed", where + ": " + ykc::st_name(st));
                    model.erase(n);
                } else if (st != status::WARN_NOT_EXIST) {
                    fail("storage:delete_missing", where + ": " + ykc::st_name(st));
                }
                break;
            }
            case FIND: {
                tree_instance* ti = nullptr;
                status st = find_storage(n, &ti);
                if (exists != (st == status::OK)) fail("storage:find", where + ": " + ykc::st_name(st));
                if (!exists && st != status::WARN_NOT_EXIST) fail("storage:find_status", where + ": " + ykc::st_name(st));
                break;
            }
            case LIST: {
                std::vector<std::pair<std::string, tree_instance*>> l;
                status st = list_storages(l);
                if (model.empty()) {
                    if (st != status::WARN_NOT_EXIST || !l.empty()) fail("storage:list_empty", where + ": " + ykc::st_name(st));
                } else {
                    bool same = st == status::OK && l.size() == model.size();
                    auto it = model.begin();
                    for (size_t x = 0; same && x < l.size(); ++x, ++it) {
                        if (l[x].first != it->first) same = false;
                    }
                    if (!same) {
                        std::string got;
                        for (auto& e : l) got += ykc::hex(e.first) + " ";
                        fail("storage:list", where + ": listed [" + got + "] status " + ykc::st_name(st));
                    }
                }
                break;
            }
            case PUT: {
                std::string v = ykc::val_of(n + "/" + k, o.gen);
                char* p = v.data();
                status st = put<char>(tk, std::string_view(n), std::string_view(k), p, v.size());
                if (!exists) {
                    if (st != status::WARN_STORAGE_NOT_EXIST) fail("storage:put_unknown", where + ": " + ykc::st_name(st));
                } else {
                    if (st != status::OK) fail("storage:put", where + ": " + ykc::st_name(st));
                    mit->second[k] = v;
                }
                break;
            }
            case GET: {
                std::pair<char*, std::size_t> g{};
                status st = get<char>(std::string_view(n), std::string_view(k), g);
                if (!exists) {
                    if (st != status::WARN_STORAGE_NOT_EXIST) fail("storage:get_unknown", where + ": " + ykc::st_name(st));
                } else {
                    auto kit = mit->second.find(k);
                    if (kit == mit->second.end()) {
                        if (st != status::WARN_NOT_EXIST) fail("storage:isolation_get", where + ": key absent in this storage but get returned " + ykc::st_name(st));
                    } else if (st != status::OK || g.first == nullptr || std::string(g.first, g.second) != kit->second) {
                        fail("storage:get", where + ": wrong result " + ykc::st_name(st));
                    }
                }
                break;
            }
            case REMOVE: {
                status st = remove(tk, std::string_view(n), std::string_view(k));
                if (!exists) {
                    if (st != status::WARN_STORAGE_NOT_EXIST) fail("storage:remove_unknown", where + ": " + ykc::st_name(st));
                } else {
                    bool present = mit->second.count(k) != 0;
                    if (present != (st == status::OK)) fail("storage:remove", where + ": " + ykc::st_name(st));
                    mit->second.erase(k);
                }
                break;
            }
            case SCAN: {
                std::vector<ykc::ScanTuple> sc;
                status st = scan<char>(std::string_view(n), "", scan_endpoint::INF, "", scan_endpoint::INF, sc);
                if (!exists) {
                    if (st != status::WARN_STORAGE_NOT_EXIST) fail("storage:scan_unknown", where + ": " + ykc::st_name(st));
                } else {
                    bool same = (st == status::OK || st == status::OK_ROOT_IS_NULL) && sc.size() == mit->second.size();
                    auto kit = mit->second.begin();
                    for (size_t x = 0; same && x < sc.size(); ++x, ++kit) {
                        if (std::get<0>(sc[x]) != kit->first || std::get<1>(sc[x]) == nullptr ||
                            std::string(std::get<1>(sc[x]), std::get<2>(sc[x])) != kit->second) same = false;
                    }
                    if (!same) fail("storage:isolation_scan", where + ": scan result differs from this storage's content");
                }
                break;
            }
            default: break;
        }
    }
    // final comparison of everything + canonical state
    {
        std::vector<std::pair<std::string, tree_instance*>> l;
        list_storages(l);
        std::string c;
        if (l.size() != model.size()) fail("storage:final_list", "storages at the end differ from the model");
        ykc::WalkOut ws;
        ws.want_canon = true;
        ws.values_are_trees = true;
        ykc::walk_tree(ws, storage::get_storages());
        if (!ws.errors.empty()) fail("storage:walk", ykc::join_errors(ws.errors));
        c = ws.canon;
        out.nontrivial = model.size() > 1;
        for (auto& e : l) {
            auto mit = model.find(e.first);
            if (mit == model.end()) {
                fail("storage:final_list", "unexpected storage " + ykc::hex(e.first));
                continue;
            }
            ykc::WalkOut w;
            w.want_canon = true;
            std::string err = ykc::check_tree(e.second, mit->second, &w);
            if (!err.empty()) fail("storage:content", ykc::hex(e.first) + ": " + err);
            c += "#" + w.canon;
            // every key of the universe by name
            for (auto& k : g_keys) {
                std::pair<char*, std::size_t> g{};
                status st = get<char>(std::string_view(e.first), std::string_view(k), g);
                bool present = mit->second.count(k) != 0;
                if (present != (st == status::OK)) fail("storage:isolation_final", ykc::hex(e.first) + "/" + ykc::hex(k) + ": " + ykc::st_name(st));
            }
        }
        out.canon = c;
    }
    leave(tk);
    destroy();
    ykc::drain_retired();
    ykalloc::end_tracking();
    if (leak_oracle) {
        if (!ykalloc::errors().empty()) fail("leak:allocator_error", ykalloc::errors()[0]);
        if (ykalloc::live_aligned() != 0) fail("leak:blocks_left", std::to_string(ykalloc::live_aligned()) + " node/value blocks left after destroy()");
    }
    return out;
}

struct Key128 {
    uint64_t a, b;
    bool operator==(const Key128& o) const { return a == o.a && b == o.b; }
};
struct Key128H {
    size_t operator()(const Key128& k) const { return size_t(k.a ^ (k.b * 0x9e3779b97f4a7c15ULL)); }
};
static Key128 digest(const std::string& s) {
    uint64_t a = 1469598103934665603ULL, b = 0x9e3779b97f4a7c15ULL;
    for (unsigned char c : s) {
        a = (a ^ c) * 1099511628211ULL;
        b = (b + c) * 0xff51afd7ed558ccdULL;
        b ^= b >> 29;
    }
    return {a, b};
}

int main(int argc, char** argv) {
    hm::Args a = hm::parse(argc, argv);
    hm::install_crash_reporter("ykseq");
    bool quick = a.tier == "quick";
    bool leak = a.oracle == "all" || a.oracle.find("leak") != std::string::npos;
    g_names = {std::string(""), std::string("a"), std::string("a\0", 2), std::string("aaaaaaaab"), std::string(300, 'n'), std::string("\xff")};
    g_keys = {std::string("k"), std::string("kkkkkkkkk")};
    if (!a.replay_scenario.empty()) {
        auto h = hist_parse(a.replay_scenario);
        Out r1 = run(h, leak), r2 = run(h, leak);
        printf("{\"replay\":\"%s\",\"symptom\":\"%s\",\"detail\":\"%s\",\"deterministic\":%s}\n", hm::jesc(a.replay_scenario).c_str(),
               hm::jesc(r1.sym).c_str(), hm::jesc(r1.detail).c_str(), (r1.sym == r2.sym && r1.canon == r2.canon) ? "true" : "false");
        if (r1.sym != r2.sym || r1.canon != r2.canon) return 2;
        return r1.sym.empty() ? 0 : 1;
    }
    // the search is split by the name subset used (each shard one subset), all within one alphabet shape
    std::vector<std::vector<int>> subsets = {{0, 1, 2}, {1, 3, 4}, {0, 4, 5}, {2, 3, 5}, {1, 2, 3}, {0, 3, 5}, {0, 1, 4}, {2, 4, 5}};
    if (!quick) {
        subsets.push_back({0, 1, 2, 3});
        subsets.push_back({2, 3, 4, 5});
        subsets.push_back({0, 1, 4, 5});
        subsets.push_back({0, 2, 3, 5});
    }
    int depth = quick ? 6 : 9;
    double t0 = ykmc::mono_now();
    double deadline = a.deadline_s > 0 ? t0 + a.deadline_s : 0;
    bool bad = false;
    for (size_t si = 0; si < subsets.size(); ++si) {
        if (int(si) % a.nshards != a.shard) continue;
        std::vector<OpS> alphabet;
        for (int n : subsets[si]) {
            alphabet.push_back({CREATE, n, 0, 0});
            alphabet.push_back({DELETE, n, 0, 0});
            alphabet.push_back({FIND, n, 0, 0});
            alphabet.push_back({SCAN, n, 0, 0});
            for (int k = 0; k < 2; ++k) {
                alphabet.push_back({PUT, n, k, 1});
                alphabet.push_back({GET, n, k, 0});
                alphabet.push_back({REMOVE, n, k, 0});
            }
        }
        alphabet.push_back({LIST, 0, 0, 0});
        double s0 = ykmc::mono_now();
        {
            std::string cp = "storage/names";
            for (int n : subsets[si]) cp += std::to_string(n);
            hm::crash_part(cp, "seq");
        }
        long states = 0, transitions = 0, evals = 0, nontrivial = 0;
        bool exhaustive = true;
        int depth_done = 0;
        std::vector<std::pair<std::string, std::string>> viol;
        std::vector<std::string> repro, samples;
        std::unordered_set<Key128, Key128H> seen;
        std::deque<std::vector<OpS>> frontier;
        frontier.push_back({});
        seen.insert(digest(run({}, leak).canon));
        states = 1;
        for (int d = 0; d < depth && !frontier.empty(); ++d) {
            std::deque<std::vector<OpS>> next;
            for (auto& h : frontier) {
                for (auto& o : alphabet) {
                    if (deadline > 0 && ykmc::mono_now() > deadline) {
                        exhaustive = false;
                        goto done;
                    }
                    auto h2 = h;
                    h2.push_back(o);
                    Out r = run(h2, leak);
                    evals++;
                    transitions++;
                    if (!r.sym.empty()) {
                        if (viol.size() < 5) {
                            viol.emplace_back(r.sym, r.detail + " || history " + hist_str(h2));
                            repro.push_back(hist_str(h2));
                        }
                        continue;
                    }
                    if (seen.insert(digest(r.canon)).second) {
                        states++;
                        if (r.nontrivial) nontrivial++;
                        if (samples.size() < 3 && (states == 5 || states == 100 || states == 2000)) samples.push_back(hist_str(h2));
                        next.push_back(h2);
                    }
                }
            }
            frontier.swap(next);
            depth_done = d + 1;
            if (!viol.empty()) break;
        }
    done:
        std::string part = "storage/names";
        for (int n : subsets[si]) part += std::to_string(n);
        printf("{\"engine\":\"ykseq\",\"part\":\"%s\",\"scenario\":\"%s\",\"sigclass\":\"seq\",\"states\":%ld,\"transitions\":%ld,\"evaluations\":%ld,"
               "\"nontrivial\":%ld,\"depth_completed\":%d,\"exhaustive\":%s,\"wall\":%.2f,\"samples\":[",
               part.c_str(), part.c_str(), states, transitions, evals, nontrivial, depth_done, exhaustive ? "true" : "false", ykmc::mono_now() - s0);
        for (size_t i = 0; i < samples.size(); ++i) printf("%s\"%s\"", i != 0 ? "," : "", hm::jesc(samples[i]).c_str());
        printf("],\"violations\":[");
        for (size_t i = 0; i < viol.size(); ++i) {
            printf("%s{\"symptom\":\"%s\",\"detail\":\"%s\",\"repro\":\"%s\"}", i != 0 ? "," : "", hm::jesc(viol[i].first).c_str(),
                   hm::jesc(viol[i].second).c_str(), hm::jesc(repro[i]).c_str());
        }
        printf("]}\n");
        fflush(stdout);
        bad |= !viol.empty();
    }
    return bad ? 1 : 0;
}
