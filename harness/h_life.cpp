// C16 (and C11): init()/fin() cycles under the scheduler. The background threads that init() spawns register themselves as
// logical threads and run only when the history grants them wake-ups (tick ops), so every history is one deterministic
// execution; the explicit-state search is over lifecycle histories.
#include <memory>

#include "../engine/hmain.h"
#include "../engine/ykc.h"

using namespace yakushima;

// ops of a cycle body
//  C create storage "s" and put key "k"     E enter (session stays open)      L leave the open session
//  R remove "k" (inside the open session, or in a short one)   T epoch tick   G gc tick   D destroy()   P probe (see below)
//  S remove "k" in a separate short session (never the open one)      J init() without the checks 'I' performs after it
// The open session (E) reads "k" when it exists and holds the value pointer: until L / fin() the block must stay allocated
// and keep its bytes, whatever S / R / T / G do meanwhile (C07 inside every cycle of C16).
struct LifeH : public ykmc::Harness {
    std::string hist; // e.g. "I.CERT.F.I.P.F"
    std::string label;
    std::string problem, problem_sym;
    std::ostringstream log;
    const char* held = nullptr; // value pointer the open session holds
    std::string held_bytes;

    std::string name() override { return label; }
    int nthreads() override { return 1; }
    void setup() override {
        ykc::sequential_teardown_mode();
        ykc::reset_library_statics();
        // the library never lowers its stop flags itself: the first init() of a process sees them false
        ykalloc::clear_errors();
        ykalloc::begin_tracking();
        problem.clear();
        problem_sym.clear();
        log.str("");
        held = nullptr;
    }
    void check_held(int cycle, const char* when) {
        if (held == nullptr) return;
        auto info = ykalloc::lookup(held);
        if (info.found && !info.live) {
            note("life:value_freed_while_session_open", "cycle " + std::to_string(cycle) + ": a value obtained by get in a session that is still open was released " + when);
            held = nullptr;
            return;
        }
        if (std::string(held, held_bytes.size()) != held_bytes) {
            note("life:value_changed_while_session_open", "cycle " + std::to_string(cycle) + ": the bytes behind a value pointer of an open session changed " + when);
            held = nullptr;
        }
    }
    void note(const std::string& sym, const std::string& d) {
        if (problem.empty()) {
            problem_sym = sym;
            problem = d;
        }
    }

    // liveness probe of one running cycle: epoch advances per tick, a retired value is reclaimed after 2 epoch ticks + 1 gc tick
    void probe(int cycle) {
        std::string c = "cycle " + std::to_string(cycle) + ": ";
        Epoch e0 = epoch_management::get_epoch();
        bool alive = ykmc::tick(0, 1);
        Epoch e1 = epoch_management::get_epoch();
        if (!alive) note("life:epoch_thread_exited", c + "the epoch thread terminated while the system is running");
        if (e1 != e0 + 1) note("life:epoch_not_advancing", c + "one epoch period passed with no open session but the epoch went " + std::to_string(e0) + " -> " + std::to_string(e1));
        // retire a value in a short session, then let epochs pass
        status cs = create_storage("probe");
        if (cs != status::OK) note("life:create_failed", c + std::string("create_storage returned ") + ykc::st_name(cs));
        Token t{};
        if (enter(t) != status::OK) {
            note("life:enter_failed", c + "enter failed although this history holds at most one other session");
            return;
        }
        char v[8] = "value01";
        char* created = nullptr;
        put<char>(t, std::string_view("probe"), "pk", v, 8, &created);
        remove(t, std::string_view("probe"), "pk");
        leave(t);
        bool a1 = ykmc::tick(0, 1);
        bool a2 = ykmc::tick(0, 1);
        bool g1 = ykmc::tick(1, 1);
        Epoch e3 = epoch_management::get_epoch();
        if (!a1 || !a2) note("life:epoch_thread_exited", c + "the epoch thread terminated while the system is running");
        if (!g1) note("life:gc_thread_exited", c + "the gc thread terminated while the system is running");
        if (e3 != e1 + 2) note("life:epoch_not_advancing", c + "two epoch periods advanced the epoch by " + std::to_string(e3 - e1));
        if (created != nullptr) {
            auto info = ykalloc::lookup(created);
            if (info.found && info.live) note("life:no_reclamation", c + "a value retired by a session that has left is still allocated after two epoch periods and a gc pass");
        }
        delete_storage("probe");
    }

    void body(int) override {
        int cycle = 0;
        bool running = false;
        Token open_tok = nullptr;
        for (size_t i = 0; i < hist.size(); ++i) {
            char o = hist[i];
            if (o == '.') continue;
            switch (o) {
                case 'I': {
                    init();
                    running = true;
                    cycle++;
                    open_tok = nullptr;
                    // every cycle starts empty with all slots free
                    std::vector<std::pair<std::string, tree_instance*>> l;
                    status ls = list_storages(l);
                    if (ls != status::WARN_NOT_EXIST || !l.empty()) note("life:storage_survived", "cycle " + std::to_string(cycle) + ": a storage of the previous cycle is still listed after init()");
                    {
                        // before any session of this cycle exists: one epoch period must advance the epoch (a slot that still
                        // advertises a begin epoch of the previous cycle would stall it; entering the slots below would hide that)
                        Epoch e0 = epoch_management::get_epoch();
                        bool alive = ykmc::tick(0, 1);
                        Epoch e1 = epoch_management::get_epoch();
                        if (!alive) note("life:epoch_thread_exited", "cycle " + std::to_string(cycle) + ": the epoch thread terminated right after init()");
                        else if (e1 != e0 + 1) note("life:epoch_not_advancing", "cycle " + std::to_string(cycle) + ": no session was opened in this cycle yet, one epoch period passed, but the epoch went " + std::to_string(e0) + " -> " + std::to_string(e1));
                    }
                    std::vector<Token> toks;
                    for (int k = 0; k < YAKUSHIMA_MAX_PARALLEL_SESSIONS; ++k) {
                        Token t{};
                        if (enter(t) != status::OK) {
                            note("life:slot_not_free", "cycle " + std::to_string(cycle) + ": only " + std::to_string(k) + " of " + std::to_string(YAKUSHIMA_MAX_PARALLEL_SESSIONS) + " sessions can be entered after init()");
                            break;
                        }
                        toks.push_back(t);
                    }
                    for (auto t : toks) leave(t);
                    break;
                }
                case 'J':
                    // init() and nothing else: the checks that 'I' performs right after init() (one epoch period, entering every
                    // slot) would repair state that a cycle inherits from its predecessor before the body can observe it
                    init();
                    running = true;
                    cycle++;
                    open_tok = nullptr;
                    break;
                case 'F':
                    check_held(cycle, "before fin()");
                    held = nullptr;
                    fin();
                    running = false;
                    open_tok = nullptr;
                    break;
                case 'C': {
                    status cs = create_storage("s");
                    if (cs != status::OK && cs != status::WARN_UNIQUE_RESTRICTION) note("life:create_failed", std::string("create_storage returned ") + ykc::st_name(cs));
                    Token t{};
                    enter(t);
                    char v[4] = "abc";
                    put<char>(t, std::string_view("s"), "k", v, 4);
                    leave(t);
                    break;
                }
                case 'E':
                    if (open_tok == nullptr) {
                        Token t{};
                        if (enter(t) == status::OK) {
                            open_tok = t;
                            std::pair<char*, std::size_t> g{};
                            if (get<char>(std::string_view("s"), "k", g) == status::OK && g.first != nullptr) {
                                held = g.first;
                                held_bytes.assign(g.first, g.second);
                            }
                        }
                    }
                    break;
                case 'L':
                    if (open_tok != nullptr) {
                        check_held(cycle, "before its leave()");
                        held = nullptr;
                        leave(open_tok);
                        open_tok = nullptr;
                    }
                    break;
                case 'R': {
                    Token t = open_tok;
                    if (t == nullptr) enter(t);
                    remove(t, std::string_view("s"), "k");
                    if (open_tok == nullptr) leave(t);
                    break;
                }
                case 'S': {
                    Token t{};
                    if (enter(t) == status::OK) {
                        remove(t, std::string_view("s"), "k");
                        leave(t);
                    }
                    check_held(cycle, "by a remove of another session");
                    break;
                }
                case 'T':
                    ykmc::tick(0, 1);
                    check_held(cycle, "after an epoch period");
                    break;
                case 'G':
                    ykmc::tick(1, 1);
                    check_held(cycle, "by a gc pass");
                    break;
                case 'D': {
                    held = nullptr; // destroy() is documented to drop everything at once
                    destroy();
                    std::vector<std::pair<std::string, tree_instance*>> l;
                    if (list_storages(l) != status::WARN_NOT_EXIST) note("life:destroy_left_storage", "a storage is listed after destroy()");
                    status cs = create_storage("after_destroy");
                    Token t{};
                    enter(t);
                    char v[4] = "xyz";
                    status ps = put<char>(t, std::string_view("after_destroy"), "k", v, 4);
                    std::pair<char*, std::size_t> g{};
                    status gs = get<char>(std::string_view("after_destroy"), "k", g);
                    leave(t);
                    if (cs != status::OK || ps != status::OK || gs != status::OK) note("life:unusable_after_destroy", "create/put/get after destroy() failed");
                    break;
                }
                case 'P':
                    if (running && open_tok == nullptr) probe(cycle);
                    break;
                default: break;
            }
        }
        if (running) {
            check_held(cycle, "before fin()");
            fin();
        }
    }

    void finish(ykmc::ExecResult& r) override {
        r.outcome = "e" + std::to_string(epoch_management::epoch_.load());
        if (!problem.empty()) {
            r.verdict = ykmc::V_VIOLATION;
            r.symptom = problem_sym;
            r.detail = problem + " || history " + hist;
        }
        ykalloc::end_tracking();
        if (r.verdict == ykmc::V_OK) {
            if (!ykalloc::errors().empty()) {
                r.verdict = ykmc::V_VIOLATION;
                r.symptom = "leak:allocator_error";
                r.detail = ykalloc::errors()[0] + " || history " + hist;
            } else if (ykalloc::live_aligned() != 0) {
                r.verdict = ykmc::V_VIOLATION;
                r.symptom = "leak:blocks_left_after_fin";
                r.detail = std::to_string(ykalloc::live_aligned()) + " node/value blocks still allocated after the last fin() || history " + hist;
            }
        }
    }
};

int main(int argc, char** argv) {
    hm::Args a = hm::parse(argc, argv);
    bool quick = a.tier == "quick";
    std::vector<hm::Scenario> sc;
    // first-cycle bodies: all sequences over the alphabet up to a length, later cycles: the probe
    std::string alpha = "CELRSTGDP";
    std::vector<std::string> bodies = {""};
    size_t maxlen = quick ? 3 : 4;
    size_t maxlen_later = maxlen + 1; // "create, hold, remove elsewhere, gc pass" needs four operations
    for (size_t len = 1, from = 0; len <= maxlen_later; ++len) {
        size_t to = bodies.size();
        for (size_t b = from; b < to; ++b) {
            for (char c : alpha) bodies.push_back(bodies[b] + c);
        }
        from = to;
    }
    std::vector<std::string> hists;
    for (auto& b : bodies) {
        if (b.size() <= maxlen) {
            hists.push_back("I." + b + ".F.I.P.F");
            if (b.size() <= 2) hists.push_back("I." + b + ".F.I." + b + "P.F.I.P.F");
        }
        // the same body in a LATER cycle, after a cycle whose probe let several epochs pass; bodies that cannot hold a value
        // across a reclamation (no E, or neither a gc pass nor fin() after it) add nothing over the first family
        if (!b.empty() && b.find('E') != std::string::npos && (b.size() <= maxlen || (b.find('C') != std::string::npos && b.find('G') != std::string::npos)))
            hists.push_back("I.P.F.J." + b + ".F");
    }
    for (auto& hst : hists) {
        hm::Scenario s;
        s.name = "life/" + hst;
        s.sigclass = "life";
        s.bound_quick = 0;
        s.bound_thorough = 0;
        s.cls_mask = 0; // no preemption points: the history decides who runs
        std::string hh = hst, nm = s.name;
        s.make = [hh, nm]() {
            auto h = std::make_unique<LifeH>();
            h->hist = hh;
            h->label = nm;
            return h;
        };
        sc.push_back(s);
    }
    return hm::run_main("h_life", sc, a);
}
