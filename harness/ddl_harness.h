// E1 harness for C13 (concurrent sentence): concurrent create/delete of storages by name.
#pragma once
#include "tree_harness.h"

namespace ddl {
using namespace yakushima;

enum K { CREATE, DELETE, FIND, PUTN, GETN, LIST };
struct Op {
    K k;
    std::string name;
};
struct Rec {
    int tid = 0;
    Op op;
    uint64_t call = 0, ret = 0;
    status st{};
    std::vector<std::string> names; // LIST result
};
inline std::string opn(const Op& o) {
    const char* n[] = {"create", "delete", "find", "put", "get", "list"};
    return std::string(n[o.k]) + "(" + ykc::hex(o.name) + ")";
}

class H : public ykmc::Harness {
public:
    std::vector<std::string> initial; // storages that exist at the start (each holding one key)
    std::vector<std::vector<Op>> progs;
    std::vector<std::vector<Rec>> recs;
    std::vector<Token> tokens;
    std::string label;
    // with_gc: the epoch thread and the gc thread of the library run as two more scheduled threads (ehz / ghz wake-ups each), so
    // that whatever a storage operation retires can be reclaimed while the operation is still running
    bool with_gc = false;
    int ehz = 3, ghz = 2;
    int finished_workers = 0;
    std::string name() override { return label; }
    int nworkers() const { return int(progs.size()); }
    int nthreads() override { return nworkers() + (with_gc ? 2 : 0); }
    int horizon(int tid) override {
        if (with_gc && tid == nworkers()) return ehz;
        if (with_gc && tid == nworkers() + 1) return ghz;
        return 0;
    }
    void worker_done() {
        if (!with_gc) return;
        ykmc::harness_point(ykmc::K_RMW, &finished_workers, 4, __LINE__);
        if (++finished_workers == nworkers()) {
            epoch_manager::set_epoch_thread_end();
            epoch_manager::set_gc_thread_end();
            ykmc::release_parked();
        }
    }
    void setup() override {
        finished_workers = 0;
        ykc::sequential_teardown_mode();
        ykc::reset_library_statics();
        ykalloc::clear_errors();
        ykalloc::begin_tracking();
        for (auto& n : initial) {
            create_storage(n);
            Token t{};
            enter(t);
            char v[2] = "v";
            put<char>(t, std::string_view(n), "k", v, 1);
            leave(t);
        }
        recs.assign(progs.size(), {});
        tokens.assign(progs.size(), nullptr);
        if (with_gc) ykc::drain_retired(); // nothing the setup retired is attributed to the operations under test
    }
    void body(int tid) override {
        if (with_gc && tid == nworkers()) {
            epoch_manager::epoch_thread();
            return;
        }
        if (with_gc && tid == nworkers() + 1) {
            epoch_manager::gc_thread();
            return;
        }
        for (auto& o : progs[size_t(tid)]) {
            Rec r;
            r.tid = tid;
            r.op = o;
            r.call = ykmc::op_begin();
            switch (o.k) {
                case CREATE: r.st = create_storage(o.name); break;
                case DELETE: r.st = delete_storage(o.name); break;
                case FIND: r.st = find_storage(o.name); break;
                case PUTN: {
                    Token t{};
                    enter(t);
                    char v[2] = "w";
                    r.st = put<char>(t, std::string_view(o.name), "k2", v, 1);
                    leave(t);
                    break;
                }
                case GETN: {
                    std::pair<char*, std::size_t> g{};
                    r.st = get<char>(std::string_view(o.name), "k", g);
                    break;
                }
                case LIST: {
                    std::vector<std::pair<std::string, tree_instance*>> l;
                    r.st = list_storages(l);
                    for (auto& e : l) r.names.push_back(e.first);
                    break;
                }
            }
            r.ret = ykmc::op_end();
            recs[size_t(tid)].push_back(r);
        }
        worker_done();
    }
    // sequential model: storage name -> keys stored in it; returns false if the recorded status is impossible
    using SModel = std::map<std::string, std::set<std::string>>;
    static bool apply(const Rec& r, SModel& m) {
        bool ex = m.count(r.op.name) != 0;
        switch (r.op.k) {
            case CREATE:
                if (ex) return r.st != status::OK;
                if (r.st != status::OK) return false;
                m[r.op.name] = {};
                return true;
            case DELETE:
                if (!ex) return r.st != status::OK;
                if (r.st != status::OK) return false;
                m.erase(r.op.name);
                return true;
            case FIND: return ex == (r.st == status::OK);
            case PUTN:
                if (!ex) return r.st == status::WARN_STORAGE_NOT_EXIST;
                if (r.st != status::OK) return false;
                m[r.op.name].insert("k2");
                return true;
            case GETN:
                if (!ex) return r.st == status::WARN_STORAGE_NOT_EXIST;
                return m[r.op.name].count("k") != 0 ? r.st == status::OK : r.st == status::WARN_NOT_EXIST;
            case LIST: {
                // the listing is the storage set of one instant, in ascending order; WARN_NOT_EXIST iff that set is empty
                std::vector<std::string> want;
                for (auto& kv : m) want.push_back(kv.first);
                if (r.names != want) return false;
                return m.empty() ? r.st == status::WARN_NOT_EXIST : r.st == status::OK;
            }
        }
        return false;
    }
    void finish(ykmc::ExecResult& r) override {
        std::vector<const Rec*> all;
        std::ostringstream hist, dig;
        for (auto& tr : recs) {
            for (auto& rc : tr) {
                all.push_back(&rc);
                hist << "T" << rc.tid << " " << opn(rc.op) << "[" << rc.call << "," << rc.ret << "]->" << ykc::st_name(rc.st);
                if (rc.op.k == LIST) {
                    hist << "{";
                    for (auto& nm : rc.names) hist << ykc::hex(nm) << " ";
                    hist << "}";
                    dig << rc.names.size() << ":";
                }
                hist << "; ";
                dig << int(rc.st) << "|";
            }
        }
        // final set of storages
        std::vector<std::pair<std::string, tree_instance*>> l;
        list_storages(l);
        std::set<std::string> final_set;
        for (auto& e : l) final_set.insert(e.first);
        // ... and what each of them holds (a key acknowledged by a put by name must be there, nothing else may be)
        SModel final_content;
        for (auto& e : l) {
            auto& keys = final_content[e.first];
            std::vector<std::tuple<std::string, char*, std::size_t>> tl;
            scan<char>(std::string_view(e.first), "", scan_endpoint::INF, "", scan_endpoint::INF, tl);
            for (auto& t : tl) keys.insert(std::get<0>(t));
            dig << "/" << keys.size();
        }
        dig << "#" << final_set.size();
        r.outcome = dig.str();
        auto fail = [&](const std::string& s, const std::string& d) {
            if (r.verdict != ykmc::V_OK) return;
            r.verdict = ykmc::V_VIOLATION;
            r.symptom = s;
            r.detail = d + " || history: " + hist.str();
        };
        // "of several concurrent creates (or deletes) of one name exactly one reports success"
        std::map<std::string, int> ok_create, ok_delete, n_create, n_delete;
        for (auto* p : all) {
            if (p->op.k == CREATE) {
                n_create[p->op.name]++;
                if (p->st == status::OK) ok_create[p->op.name]++;
            }
            if (p->op.k == DELETE) {
                n_delete[p->op.name]++;
                if (p->st == status::OK) ok_delete[p->op.name]++;
            }
        }
        std::set<std::string> init(initial.begin(), initial.end());
        for (auto& kv : n_create) {
            if (n_delete.count(kv.first) != 0) continue; // mixed programs are judged by the linearizability check
            int want = init.count(kv.first) != 0 ? 0 : 1;
            if (ok_create[kv.first] != want) fail("ddl:create_success_count", std::to_string(ok_create[kv.first]) + " creates of " + ykc::hex(kv.first) + " reported OK, want " + std::to_string(want));
        }
        for (auto& kv : n_delete) {
            if (n_create.count(kv.first) != 0) continue;
            int want = init.count(kv.first) != 0 ? 1 : 0;
            if (ok_delete[kv.first] != want) fail("ddl:delete_success_count", std::to_string(ok_delete[kv.first]) + " deletes of " + ykc::hex(kv.first) + " reported OK, want " + std::to_string(want));
        }
        // linearizability against the set model, ending in the observed final set
        {
            size_t n = all.size();
            std::vector<char> used(n, 0);
            std::function<bool(SModel&, size_t)> rec = [&](SModel& m, size_t done) -> bool {
                if (done == n) return m == final_content;
                for (size_t i = 0; i < n; ++i) {
                    if (used[i] != 0) continue;
                    bool minimal = true;
                    for (size_t j = 0; j < n; ++j) {
                        if (j != i && used[j] == 0 && all[j]->ret < all[i]->call) minimal = false;
                    }
                    if (!minimal) continue;
                    SModel m2 = m;
                    if (!apply(*all[i], m2)) continue;
                    used[i] = 1;
                    if (rec(m2, done + 1)) return true;
                    used[i] = 0;
                }
                return false;
            };
            SModel m0;
            for (auto& nm : init) m0[nm] = {"k"};
            if (!rec(m0, 0)) {
                std::string fs;
                for (auto& kv : final_content) {
                    fs += ykc::hex(kv.first) + ":[";
                    for (auto& k : kv.second) fs += k + " ";
                    fs += "] ";
                }
                fail("ddl:not_linearizable", "no sequential order of the storage and data operations explains the statuses and the final storages with their keys {" + fs + "}");
            }
        }
        // structure of the storages tree
        {
            ykc::WalkOut w;
            w.values_are_trees = true;
            ykc::walk_tree(w, storage::get_storages());
            if (!w.errors.empty()) fail("ddl:storages_tree_corrupt", ykc::join_errors(w.errors));
        }
        destroy();
        ykc::drain_retired();
        ykalloc::end_tracking();
        if (!ykalloc::errors().empty()) fail("leak:allocator_error", ykalloc::errors()[0]);
        if (ykalloc::live_aligned() != 0) fail("leak:blocks_left", std::to_string(ykalloc::live_aligned()) + " node/value blocks left after destroy()");
    }
};

inline void scenarios(std::vector<hm::Scenario>& out) {
    struct S {
        std::vector<std::string> init;
        std::vector<std::vector<Op>> progs;
        bool quick;
        int bq, bt;
        bool gc = false;
    };
    std::string a = "a", b = "b", l9 = "aaaaaaaab";
    std::vector<S> ss = {
            {{}, {{{CREATE, a}}, {{CREATE, a}}}, true, 2, 3},
            {{}, {{{CREATE, l9}}, {{CREATE, l9}}}, true, 2, 3},
            {{}, {{{CREATE, a}}, {{CREATE, b}}}, true, 2, 3},
            {{a}, {{{DELETE, a}}, {{DELETE, a}}}, true, 2, 3},
            {{l9}, {{{DELETE, l9}}, {{DELETE, l9}}}, true, 2, 3},
            {{a, b}, {{{DELETE, a}}, {{DELETE, b}}}, true, 2, 3},
            {{a}, {{{DELETE, a}}, {{CREATE, b}}}, true, 2, 3},
            {{a}, {{{CREATE, a}}, {{CREATE, a}}}, true, 2, 3},
            {{}, {{{DELETE, a}}, {{DELETE, a}}}, true, 2, 2},
            {{}, {{{CREATE, a}}, {{CREATE, a}}, {{CREATE, a}}}, false, 2, 2},
            {{a}, {{{DELETE, a}}, {{DELETE, a}}, {{DELETE, a}}}, false, 2, 2},
            {{}, {{{CREATE, a}, {DELETE, a}}, {{CREATE, a}}}, false, 2, 2},
            {{a}, {{{DELETE, a}, {CREATE, a}}, {{DELETE, a}}}, false, 2, 2},
            {{}, {{{CREATE, a}}, {{CREATE, a}}, {{FIND, a}}}, false, 2, 2},
            // data operations by name next to a create of that name: a put that was acknowledged (by the loser of a create/create race,
            // or by a thread that only uses the name) must be in the storage afterwards, an unknown name answers WARN_STORAGE_NOT_EXIST
            {{}, {{{CREATE, a}}, {{CREATE, a}, {PUTN, a}}}, true, 2, 3},
            {{}, {{{CREATE, a}}, {{PUTN, a}}}, true, 2, 3},
            {{}, {{{CREATE, l9}}, {{CREATE, l9}, {PUTN, l9}}}, false, 2, 2},
            {{}, {{{CREATE, a}}, {{GETN, a}}}, true, 2, 3},
            {{b}, {{{CREATE, a}}, {{PUTN, a}, {GETN, b}}}, false, 2, 2},
            // a listing racing ONE create or delete: it is the sorted storage set before or after that operation (a listing is a
            // scan, not a snapshot: against two changes it may legitimately combine them, so only one change is raced)
            {{}, {{{CREATE, a}}, {{LIST, ""}}}, true, 2, 3},
            {{a}, {{{DELETE, a}}, {{LIST, ""}}}, true, 2, 3},
            {{a}, {{{CREATE, b}}, {{LIST, ""}}}, true, 2, 3},
            // with the epoch and gc threads running: the entry (which embeds the tree_instance) that a delete retires may be
            // reclaimed as soon as the deleting session has left
            {{a}, {{{DELETE, a}}}, true, 2, 3, true},
            {{a, b}, {{{DELETE, a}}, {{PUTN, b}}}, false, 2, 2, true},
            {{a}, {{{DELETE, a}}, {{CREATE, b}}}, false, 2, 2, true},
            {{a}, {{{DELETE, a}, {CREATE, a}}}, false, 2, 3, true},
            {{}, {{{CREATE, a}, {DELETE, a}}}, false, 2, 3, true},
    };
    for (auto& s : ss) {
        hm::Scenario sc;
        std::string pn;
        for (size_t i = 0; i < s.progs.size(); ++i) {
            if (i != 0) pn += "|";
            for (size_t k = 0; k < s.progs[i].size(); ++k) pn += (k != 0 ? ";" : "") + opn(s.progs[i][k]);
        }
        std::string in;
        for (auto& n : s.init) in += ykc::hex(n) + "+";
        sc.name = std::string(s.gc ? "ddl+gc" : "ddl") + "/init[" + in + "]/" + pn;
        sc.sigclass = "ddl";
        sc.quick = s.quick;
        sc.bound_quick = s.bq;
        sc.bound_thorough = s.bt;
        sc.cls_mask = (1u << ykmc::C_TREE) | (1u << ykmc::C_SESSION);
        if (s.gc) sc.cls_mask |= (1u << ykmc::C_HARNESS); // the background threads run each wake-up atomically: they switch only where they sleep
        S cs = s;
        std::string nm = sc.name;
        sc.make = [cs, nm]() {
            auto h = std::make_unique<H>();
            h->initial = cs.init;
            h->progs = cs.progs;
            h->with_gc = cs.gc;
            h->label = nm;
            return h;
        };
        out.push_back(sc);
    }
}
} // namespace ddl
