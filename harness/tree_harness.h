// Tree-level E1 harness: a seed shape, 2-3 logical threads each running a short program of real API calls
// on one tree_instance, and the oracles of C01 (linearizability), C04 (per-key scan consistency),
// C06 (phantom), C08 (structure), C09 (locks), C11 (leaks), C15 (values).
#pragma once
#include <memory>

#include "../engine/hmain.h"
#include "../engine/ykc.h"

namespace th {

using namespace yakushima;
using ykc::Model;

enum OpKind { GET, PUT, UPUT, REMOVE, SCAN, ISCAN };

struct Op {
    OpKind kind = GET;
    std::string key;          // point key or scan left key
    int gen = 1;              // value generation for puts
    // scan parameters
    scan_endpoint le = scan_endpoint::INF, re = scan_endpoint::INF;
    std::string rkey;
    std::size_t max = 0;
    bool r2l = false;
    bool want_nv = false;
    bool early = false;       // iscan: early_abort
};

inline std::string op_name(const Op& o) {
    switch (o.kind) {
        case GET: return "get(" + ykc::hex(o.key) + ")";
        case PUT: return "put(" + ykc::hex(o.key) + "," + std::to_string(o.gen) + ")";
        case UPUT: return "uput(" + ykc::hex(o.key) + "," + std::to_string(o.gen) + ")";
        case REMOVE: return "remove(" + ykc::hex(o.key) + ")";
        case ISCAN:
        case SCAN: {
            std::string s = o.kind == ISCAN ? (o.early ? "iscan_early(" : "iscan(") : "scan(";
            s += o.le == scan_endpoint::INF ? "-inf" : (o.le == scan_endpoint::INCLUSIVE ? "[" : "(") + ykc::hex(o.key);
            s += ",";
            s += o.re == scan_endpoint::INF ? "+inf" : ykc::hex(o.rkey) + (o.re == scan_endpoint::INCLUSIVE ? "]" : ")");
            if (o.max != 0) s += ",max" + std::to_string(o.max);
            if (o.r2l) s += ",r2l";
            if (o.want_nv) s += ",nv";
            return s + ")";
        }
    }
    return "?";
}

struct Rec {
    int tid = 0;
    Op op;
    uint64_t call = 0, ret = 0;
    status st{};
    std::string bytes;       // get result
    bool null_ok = false;    // OK with null pointer
    std::vector<std::pair<std::string, std::string>> scan_out; // scan result (key, bytes or "<null>")
    ykc::NvVec nv;
    std::pair<node_version64_body, node_version64*> cv{node_version64_body{}, nullptr}; // get: checked version of a miss
    std::vector<std::pair<const char*, std::string>> held; // value pointers handed out, with the bytes they showed then
    bool done = false;
};

enum OracleBits { O_LIN = 1, O_STRUCT = 2, O_LOCK = 4, O_LEAK = 8, O_SCAN = 16, O_PHANTOM = 32, O_ALL = 63 };

inline unsigned oracle_mask(const std::string& s) {
    if (s == "all") return O_ALL;
    unsigned m = 0;
    if (s.find("lin") != std::string::npos) m |= O_LIN;
    if (s.find("struct") != std::string::npos) m |= O_STRUCT;
    if (s.find("lock") != std::string::npos) m |= O_LOCK;
    if (s.find("leak") != std::string::npos) m |= O_LEAK;
    if (s.find("scan") != std::string::npos) m |= O_SCAN;
    if (s.find("phantom") != std::string::npos) m |= O_PHANTOM;
    return m;
}

// -------------------------------------------------------------------------------------------
// history checkers
// -------------------------------------------------------------------------------------------

// apply op to model; returns whether the recorded result is what the model prescribes
inline bool apply_point(const Rec& r, Model& m) {
    auto it = m.find(r.op.key);
    switch (r.op.kind) {
        case GET:
            if (it == m.end()) return r.st == status::WARN_NOT_EXIST;
            return r.st == status::OK && !r.null_ok && r.bytes == it->second;
        case PUT:
            if (r.st != status::OK) return false;
            m[r.op.key] = ykc::val_of(r.op.key, r.op.gen);
            return true;
        case UPUT:
            if (it != m.end()) return r.st == status::WARN_UNIQUE_RESTRICTION;
            if (r.st != status::OK) return false;
            m[r.op.key] = ykc::val_of(r.op.key, r.op.gen);
            return true;
        case REMOVE:
            if (it == m.end()) return r.st != status::OK && (r.st == status::OK_NOT_FOUND || r.st == status::OK_ROOT_IS_NULL);
            if (r.st != status::OK) return false;
            m.erase(it);
            return true;
        default: return true;
    }
}

// brute force: is there a total order of the point ops respecting real time, explained by the map model,
// ending in final_state (if given)?
inline bool linearizable(const std::vector<const Rec*>& ops, const Model& init, const Model* final_state) {
    std::size_t n = ops.size();
    std::vector<int> order;
    std::vector<char> used(n, 0);
    std::function<bool(Model&)> rec = [&](Model& m) -> bool {
        if (order.size() == n) return final_state == nullptr || m == *final_state;
        for (std::size_t i = 0; i < n; ++i) {
            if (used[i] != 0) continue;
            // minimal: no unused op returned before this one was called
            bool minimal = true;
            for (std::size_t j = 0; j < n; ++j) {
                if (j != i && used[j] == 0 && ops[j]->ret < ops[i]->call) {
                    minimal = false;
                    break;
                }
            }
            if (!minimal) continue;
            Model m2 = m;
            if (!apply_point(*ops[i], m2)) continue;
            used[i] = 1;
            order.push_back(int(i));
            if (rec(m2)) return true;
            order.pop_back();
            used[i] = 0;
        }
        return false;
    };
    Model m = init;
    return rec(m);
}

// per-key scan consistency (C04). Returns "" or an error text.
// writes: successful puts/removes of one key (with their intervals); the scan's read of the key is a point in [sc, sr].
inline std::string key_binding_possible(const std::string& key, const std::vector<const Rec*>& writes, const Model& init, uint64_t sc,
                                        uint64_t sr, bool observed_present, const std::string& observed_bytes) {
    std::size_t n = writes.size();
    std::vector<int> perm(n);
    for (std::size_t i = 0; i < n; ++i) perm[i] = int(i);
    std::sort(perm.begin(), perm.end());
    auto init_it = init.find(key);
    do {
        // real-time order among writes
        bool ok = true;
        for (std::size_t a = 0; ok && a < n; ++a) {
            for (std::size_t b = a + 1; ok && b < n; ++b) {
                if (writes[size_t(perm[b])]->ret < writes[size_t(perm[a])]->call) ok = false;
            }
        }
        if (!ok) continue;
        // statuses must be valid along this order; collect bindings
        std::vector<std::pair<bool, std::string>> b; // binding after i ops
        bool present = init_it != init.end();
        std::string cur = present ? init_it->second : "";
        b.emplace_back(present, cur);
        for (std::size_t i = 0; ok && i < n; ++i) {
            const Rec* w = writes[size_t(perm[i])];
            Model m;
            if (present) m[key] = cur;
            if (!apply_point(*w, m)) {
                ok = false;
                break;
            }
            present = m.count(key) != 0;
            cur = present ? m[key] : "";
            b.emplace_back(present, cur);
        }
        if (!ok) continue;
        for (std::size_t i = 0; i <= n; ++i) {
            // read point after i writes: those i started before the scan returned, the rest ended after it was invoked
            bool place = true;
            for (std::size_t k = 0; place && k < i; ++k) {
                if (!(writes[size_t(perm[k])]->call < sr)) place = false;
            }
            for (std::size_t k = i; place && k < n; ++k) {
                if (!(writes[size_t(perm[k])]->ret > sc)) place = false;
            }
            if (!place) continue;
            if (b[i].first == observed_present && (!observed_present || b[i].second == observed_bytes)) return "";
        }
    } while (std::next_permutation(perm.begin(), perm.end()));
    return "key " + ykc::hex(key) + (observed_present ? " returned with value " + ykc::hex(observed_bytes) : " reported absent") +
           " but no instant of the scan explains it";
}

inline bool key_in_range(const std::string& k, const Op& s) {
    if (s.le == scan_endpoint::INCLUSIVE && k < s.key) return false;
    if (s.le == scan_endpoint::EXCLUSIVE && k <= s.key) return false;
    if (s.re == scan_endpoint::INCLUSIVE && k > s.rkey) return false;
    if (s.re == scan_endpoint::EXCLUSIVE && k >= s.rkey) return false;
    return true;
}

// -------------------------------------------------------------------------------------------
// the harness
// -------------------------------------------------------------------------------------------
class TreeHarness : public ykmc::Harness {
public:
    ykc::Shape shape;
    std::vector<std::vector<Op>> progs;
    unsigned oracles = O_ALL;
    std::string label;

    tree_instance* ti = nullptr;
    std::vector<Token> tokens;
    Token setup_token{};
    Model init_model;
    std::vector<std::vector<Rec>> recs;
    std::vector<const void*> retired_nodes;
    long aligned_before = 0;

    std::string name() override { return label; }
    int nthreads() override { return int(progs.size()); }

    static TreeHarness*& current() {
        static TreeHarness* c = nullptr;
        return c;
    }
    static void on_event(int, int ev, const void* obj, unsigned long long, unsigned long long) {
        if (ev == 0 && current() != nullptr) current()->retired_nodes.push_back(obj);
    }

    void setup() override {
        ykc::sequential_teardown_mode();
        ykc::reset_library_statics();
        ykalloc::clear_errors();
        ykalloc::begin_tracking();
        current() = this;
        ykmc::event_cb = &TreeHarness::on_event;
        retired_nodes.clear();
        ti = new tree_instance();
        tokens.assign(progs.size(), nullptr);
        enter(setup_token);
        for (auto& t : tokens) enter(t);
        init_model = ykc::build_shape(shape, setup_token, ti);
        recs.assign(progs.size(), {});
        for (std::size_t i = 0; i < progs.size(); ++i) {
            recs[i].resize(progs[i].size());
            for (std::size_t k = 0; k < progs[i].size(); ++k) {
                recs[i][k].tid = int(i);
                recs[i][k].op = progs[i][k];
            }
        }
    }

    void body(int tid) override {
        for (std::size_t k = 0; k < progs[size_t(tid)].size(); ++k) {
            Rec& r = recs[size_t(tid)][k];
            const Op& o = r.op;
            r.call = ykmc::op_begin();
            switch (o.kind) {
                case GET: {
                    r.cv.second = nullptr;
                    ykc::GetResult g = ykc::t_get(ti, o.key, &r.cv);
                    r.st = g.st;
                    r.bytes = g.bytes;
                    r.null_ok = g.null_ok;
                    if (g.st == status::OK && g.ptr != nullptr) r.held.emplace_back(g.ptr, g.bytes);
                    break;
                }
                case PUT: r.st = ykc::t_put(tokens[size_t(tid)], ti, o.key, ykc::val_of(o.key, o.gen), false); break;
                case UPUT: r.st = ykc::t_put(tokens[size_t(tid)], ti, o.key, ykc::val_of(o.key, o.gen), true); break;
                case REMOVE: r.st = ykc::t_remove(tokens[size_t(tid)], ti, o.key); break;
                case ISCAN: {
                    iscan_context* ctx = nullptr;
                    void* val = nullptr;
                    auto cb = [&r, &o](node_version64* p, node_version64_body v) {
                        if (o.want_nv) r.nv.emplace_back(v, p);
                        return false;
                    };
                    std::string ll = o.key;
                    scan_endpoint lle = o.le;
                    if (lle == scan_endpoint::INF) {
                        ll = "";
                        lle = scan_endpoint::INCLUSIVE;
                    }
                    status st = iscan_open(ti, ll, lle, o.rkey, o.re, ctx, val, cb, o.r2l, o.early);
                    int guard = 0;
                    while (st == status::OK && guard++ < 400) {
                        std::string k = ctx->full_key();
                        // the cursor API has no length: the stored values are val_of(key, gen) strings, read up to the generation's length
                        std::string bytes = "<null>";
                        if (val != nullptr) {
                            const char* c = static_cast<const char*>(val);
                            size_t n = 0;
                            std::string base = ykc::val_of(k, 0);
                            // values of generation g are val_of(k,0) with the digit replaced and g '+' appended
                            n = base.size();
                            bytes.assign(c, n);
                            int gen = bytes.size() > 1 ? bytes[1] - '0' : 0;
                            if (gen > 0 && gen < 10) bytes.assign(c, n + size_t(gen));
                        }
                        r.scan_out.emplace_back(k, bytes);
                        if (val != nullptr) r.held.emplace_back(static_cast<const char*>(val), bytes);
                        st = iscan_next(ctx, val, cb);
                    }
                    r.st = st;
                    if (ctx != nullptr) iscan_close(ctx);
                    break;
                }
                case SCAN: {
                    std::vector<ykc::ScanTuple> out;
                    r.st = ykc::t_scan(ti, o.key, o.le, o.rkey, o.re, out, o.want_nv ? &r.nv : nullptr, o.max, o.r2l);
                    for (auto& t : out) {
                        if (std::get<1>(t) == nullptr) {
                            r.scan_out.emplace_back(std::get<0>(t), "<null>");
                        } else {
                            r.scan_out.emplace_back(std::get<0>(t), std::string(std::get<1>(t), std::get<2>(t)));
                            r.held.emplace_back(std::get<1>(t), r.scan_out.back().second);
                        }
                    }
                    break;
                }
            }
            r.ret = ykmc::op_end();
            r.done = true;
        }
    }

    std::string history() const {
        std::ostringstream o;
        for (auto& tr : recs) {
            for (auto& r : tr) {
                o << "T" << r.tid << " " << op_name(r.op) << "[" << r.call << "," << r.ret << "]->" << ykc::st_name(r.st);
                if (r.op.kind == GET && r.st == status::OK) o << ":" << (r.null_ok ? "<null>" : ykc::hex(r.bytes));
                if (r.op.kind == SCAN || r.op.kind == ISCAN) {
                    o << ":{";
                    for (auto& kv : r.scan_out) o << ykc::hex(kv.first) << "=" << ykc::hex(kv.second) << " ";
                    o << "}";
                }
                o << "; ";
            }
        }
        return o.str();
    }

    std::string outcome_digest() const {
        std::ostringstream o;
        for (auto& tr : recs) {
            for (auto& r : tr) {
                o << int(r.st);
                if (r.op.kind == GET && r.st == status::OK) o << (r.null_ok ? "N" : r.bytes);
                if (r.op.kind == SCAN || r.op.kind == ISCAN) {
                    for (auto& kv : r.scan_out) o << kv.first << "=" << kv.second << ",";
                    o << "#" << r.nv.size();
                }
                o << "|";
            }
        }
        return o.str();
    }

    void fail(ykmc::ExecResult& r, const std::string& symptom, const std::string& detail) {
        if (r.verdict != ykmc::V_OK) return;
        r.verdict = ykmc::V_VIOLATION;
        r.symptom = symptom;
        r.detail = detail + " || history: " + history();
    }

    void finish(ykmc::ExecResult& r) override {
        r.outcome = outcome_digest();
        // walk the tree first (quiescent)
        ykc::WalkOut w;
        ykc::walk_tree(w, ti);
        Model final_model;
        bool walk_ok = true;
        for (auto& kv : w.kv) {
            if (final_model.count(kv.first) != 0) walk_ok = false;
            final_model[kv.first] = kv.second;
        }
        std::vector<const Rec*> points;
        std::vector<const Rec*> scans;
        for (auto& tr : recs) {
            for (auto& rc : tr) {
                if (rc.op.kind == SCAN || rc.op.kind == ISCAN) scans.push_back(&rc); else points.push_back(&rc);
            }
        }
        if ((oracles & O_LIN) != 0) {
            for (auto* p : points) {
                if (p->op.kind == GET && p->st == status::OK && p->null_ok) {
                    fail(r, "lin:null_value", "get returned OK with a null value pointer");
                }
            }
            if (r.verdict == ykmc::V_OK && !linearizable(points, init_model, nullptr)) {
                fail(r, "lin:not_linearizable", "no sequential order explains the results");
            }
            if (r.verdict == ykmc::V_OK && walk_ok && !linearizable(points, init_model, &final_model)) {
                std::string fm;
                for (auto& kv : final_model) fm += ykc::hex(kv.first) + "=" + ykc::hex(kv.second) + " ";
                fail(r, "lin:final_state", "results are linearizable but not with the final tree content {" + fm + "}");
            }
        }
        if ((oracles & O_SCAN) != 0) {
            for (auto* s : scans) check_scan(r, *s, points);
        }
        if ((oracles & O_PHANTOM) != 0) {
            for (auto* s : scans) check_phantom(r, *s, points);
        }
        if ((oracles & (O_STRUCT | O_LOCK)) != 0) {
            for (auto& e : w.errors) {
                bool lockerr = e.find("locked") != std::string::npos || e.find("bit") != std::string::npos || e.find("root lock") != std::string::npos;
                if (lockerr && (oracles & O_LOCK) != 0) fail(r, "lock:left_held", e);
                if (!lockerr && (oracles & O_STRUCT) != 0) fail(r, "struct:" + e.substr(0, 40), ykc::join_errors(w.errors));
            }
            if ((oracles & O_STRUCT) != 0) {
                if (!walk_ok) fail(r, "struct:duplicate_key", "a key is reachable twice");
                for (auto* n : retired_nodes) {
                    if (w.node_set.count(n) != 0) {
                        fail(r, "struct:retired_node_reachable", "a node handed to the retire queue is still reachable");
                    }
                }
                // get == scan == reverse iscan == walked content
                std::vector<std::string> universe;
                for (auto& kv : init_model) universe.push_back(kv.first);
                for (auto* p : points) universe.push_back(p->op.key);
                if (r.verdict == ykmc::V_OK && w.errors.empty()) {
                    std::string e = ykc::api_agreement(ti, final_model, universe);
                    if (!e.empty()) fail(r, "struct:api_disagreement", e);
                }
            }
        }
        // C05 on top of the concurrent execution: a scan whose collected pairs are all still current at the end promises that a LATER
        // insert into its interval changes one of them. Probe it: insert each absent candidate key of the interval in turn.
        if ((oracles & (O_PHANTOM | O_LIN)) != 0 && r.verdict == ykmc::V_OK && w.errors.empty()) {
            for (auto* g : points) check_get_miss_version(r, *g, final_model, w.nodes.size());
        }
        if ((oracles & O_PHANTOM) != 0 && r.verdict == ykmc::V_OK && w.errors.empty()) {
            for (auto* s : scans) probe_later_inserts(r, *s, final_model, points, w.nodes.size());
        }
        // every session of this execution is still open: a value pointer handed out by get / scan / iscan must still show the bytes
        // it showed when it was handed out (an overwrite installs a new copy and retires the old one; nothing is reclaimed before
        // the sessions leave). Freed blocks are quarantined and poisoned by the allocation monitor, so the read itself is safe.
        if ((oracles & (O_LIN | O_SCAN)) != 0) {
            for (auto& tr : recs) {
                for (auto& rc : tr) {
                    for (auto& h : rc.held) {
                        if (memcmp(h.first, h.second.data(), h.second.size()) != 0) {
                            fail(r, "value:changed_while_session_open",
                                 op_name(rc.op) + " of T" + std::to_string(rc.tid) + " was handed a value that read " + ykc::hex(h.second) + " and reads " +
                                         ykc::hex(std::string(h.first, h.second.size())) + " before the session has left");
                        }
                    }
                }
            }
        }
        // teardown
        for (auto& t : tokens) leave(t);
        leave(setup_token);
        ykc::drain_retired();
        ykc::destroy_tree(ti);
        delete ti;
        ti = nullptr;
        ykalloc::end_tracking();
        if ((oracles & O_LEAK) != 0) {
            if (!ykalloc::errors().empty()) fail(r, "leak:allocator_error", ykalloc::errors()[0]);
            long live = ykalloc::live_aligned();
            if (live != 0) fail(r, "leak:blocks_left", std::to_string(live) + " node/value blocks still allocated after teardown");
        }
        current() = nullptr;
    }

    void check_scan(ykmc::ExecResult& r, const Rec& s, const std::vector<const Rec*>& points) {
        bool is_cursor = s.op.kind == ISCAN;
        bool aborted = false;
        if (is_cursor) {
            if (s.st == status::WARN_CONCURRENT_OPERATIONS && s.op.early) {
                aborted = true;
            } else if (s.st != status::OK_SCAN_END) {
                fail(r, "iscan:status", std::string("cursor iteration ended with ") + ykc::st_name(s.st));
                return;
            }
        } else if (s.st != status::OK && s.st != status::OK_ROOT_IS_NULL) {
            fail(r, "scan:status", std::string("scan returned ") + ykc::st_name(s.st));
            return;
        }
        const char* pf = is_cursor ? "iscan" : "scan";
        if (is_cursor && s.op.r2l) {
            // descending production: check on the reversed list, truncation then cuts the low side
            Rec rev = s;
            std::reverse(rev.scan_out.begin(), rev.scan_out.end());
            rev.op.kind = SCAN;
            rev.st = status::OK;
            rev.op.r2l = aborted;
            rev.op.max = aborted ? rev.scan_out.size() : 0;
            if (aborted && rev.scan_out.empty()) return;
            std::size_t before = r.verdict;
            check_scan(r, rev, points);
            if (r.verdict != int(before) && r.symptom.rfind("scan:", 0) == 0) r.symptom = "iscan:" + r.symptom.substr(5);
            return;
        }
        // order, range, null
        for (std::size_t i = 0; i < s.scan_out.size(); ++i) {
            if (s.scan_out[i].second == "<null>") {
                fail(r, std::string(pf) + ":null_value", "returned a null value pointer for key " + ykc::hex(s.scan_out[i].first));
                return;
            }
            if (i > 0 && !(s.scan_out[i - 1].first < s.scan_out[i].first)) {
                fail(r, std::string(pf) + ":order", "result not strictly monotone");
                return;
            }
            if (!key_in_range(s.scan_out[i].first, s.op)) {
                fail(r, std::string(pf) + ":out_of_range", "returned key outside the interval: " + ykc::hex(s.scan_out[i].first));
                return;
            }
        }
        if (s.op.max != 0 && s.scan_out.size() > s.op.max) {
            fail(r, "scan:max_size", "scan returned more than max_size entries");
            return;
        }
        std::set<std::string> universe;
        for (auto& kv : init_model) universe.insert(kv.first);
        for (auto* p : points) universe.insert(p->op.key);
        std::map<std::string, std::string> got(s.scan_out.begin(), s.scan_out.end());
        bool truncated = (s.op.max != 0 && s.scan_out.size() >= s.op.max) || aborted;
        for (auto& k : universe) {
            if (!key_in_range(k, s.op)) continue;
            auto it = got.find(k);
            if (it == got.end()) {
                if (aborted && s.scan_out.empty()) continue;
                if (truncated) {
                    if (!s.op.r2l && !s.scan_out.empty() && k > s.scan_out.back().first) continue; // beyond the cut
                    if (s.op.r2l && !s.scan_out.empty() && k < s.scan_out.front().first) continue;
                }
            }
            std::vector<const Rec*> writes;
            for (auto* p : points) {
                if (p->op.key == k && p->op.kind != GET) writes.push_back(p);
            }
            std::string e = key_binding_possible(k, writes, init_model, s.call, s.ret, it != got.end(), it != got.end() ? it->second : "");
            if (!e.empty()) {
                fail(r, std::string(pf) + (it != got.end() ? ":stale_or_foreign_value" : ":lost_key"), e);
                return;
            }
        }
    }

    // C05 (get): a get that missed reports (version, node) of the border in which it established the absence. The key is absent at
    // the get's linearization point, so if it is stored when the execution ends it was inserted after that point and the pair
    // must be stale; if it is still absent and the pair still current, inserting it now must make the pair stale.
    void check_get_miss_version(ykmc::ExecResult& r, const Rec& g, const Model& final_model, std::size_t node_count) {
        if (g.op.kind != GET || g.st != status::WARN_NOT_EXIST || g.cv.second == nullptr) return;
        auto current = [&]() {
            auto info = ykalloc::lookup(g.cv.second);
            if (info.found && !info.live) return false;
            return g.cv.second->get_stable_version() == g.cv.first;
        };
        const std::string& k = g.op.key;
        if (final_model.count(k) != 0) {
            if (current()) {
                fail(r, "phantom:get_miss_undetected_insert",
                     op_name(g.op) + " of T" + std::to_string(g.tid) + " reported WARN_NOT_EXIST with a checked version that is still current although the key was inserted later");
            }
            return;
        }
        if (!current()) return;
        std::size_t retired_before = retired_nodes.size();
        status ps = ykc::t_put(setup_token, ti, k, ykc::val_of(k, 1), true);
        if (ps != status::OK) {
            fail(r, "phantom:probe_insert_failed", "unique insert of the absent key " + ykc::hex(k) + " after the execution returned " + ykc::st_name(ps));
            return;
        }
        if (current()) {
            fail(r, "phantom:get_miss_undetected_later_insert",
                 "the checked version of " + op_name(g.op) + " (WARN_NOT_EXIST) was current when the execution ended and the insert of the key did not change it");
            return;
        }
        ykc::t_remove(setup_token, ti, k);
        (void) retired_before;
        (void) node_count;
    }

    void probe_later_inserts(ykmc::ExecResult& r, const Rec& s, const Model& final_model, const std::vector<const Rec*>& points, std::size_t node_count) {
        if (!s.op.want_nv || s.op.kind != SCAN || s.st != status::OK || s.op.max != 0 || s.nv.empty()) return;
        auto all_current = [&]() {
            for (auto& pr : s.nv) {
                auto info = ykalloc::lookup(pr.second);
                if (info.found && !info.live) return false;
                if (pr.second->get_stable_version() != pr.first) return false;
            }
            return true;
        };
        // a set that is already stale makes the reader abort: nothing left to promise
        if (!all_current()) return;
        std::set<std::string> cand;
        for (auto& kv : shape.pal) cand.insert(kv.second);
        for (auto& kv : init_model) {
            cand.insert(kv.first + "5");
            cand.insert(kv.first);
        }
        for (auto* p : points) cand.insert(p->op.key);
        cand.insert("00");
        cand.insert("zzz");
        std::vector<node_version64_body> base;
        for (auto& k : cand) {
            if (final_model.count(k) != 0 || !key_in_range(k, s.op)) continue;
            base.clear();
            for (auto& pr : s.nv) base.push_back(pr.second->get_stable_version());
            std::size_t retired_before = retired_nodes.size();
            inserted_node_info info{};
            status ps = ykc::t_put(setup_token, ti, k, ykc::val_of(k, 1), true, &info);
            if (ps != status::OK) {
                fail(r, "phantom:probe_insert_failed", "unique insert of the absent key " + ykc::hex(k) + " after the execution returned " + ykc::st_name(ps));
                return;
            }
            bool bumped = false;
            for (std::size_t i = 0; i < s.nv.size(); ++i) {
                if (s.nv[i].second->get_stable_version() != base[i]) bumped = true;
            }
            if (!bumped) {
                fail(r, "phantom:undetected_later_insert",
                     "all " + std::to_string(s.nv.size()) + " node versions collected by " + op_name(s.op) + " were still current when the execution ended, and a later insert of " +
                             ykc::hex(k) + " (inside the scanned interval) changed none of them");
                return;
            }
            ykc::t_remove(setup_token, ti, k);
            // continue with the next candidate only if the probe left the node structure as it was (then the nodes cover the same ranges
            // and the comparison against their current versions is the comparison the scan's own pairs would have given)
            ykc::WalkOut w2;
            ykc::walk_tree(w2, ti);
            if (info.created_nvp != nullptr || retired_nodes.size() != retired_before || w2.nodes.size() != node_count || !w2.errors.empty()) return;
        }
    }

    void check_phantom(ykmc::ExecResult& r, const Rec& s, const std::vector<const Rec*>& points) {
        if (!s.op.want_nv) return;
        if (s.op.kind == SCAN && s.st == status::OK && s.nv.empty()) {
            fail(r, "phantom:empty_version_set", "scan returned OK with an empty node version set");
            return;
        }
        if (s.op.kind == ISCAN && s.st != status::OK_SCAN_END) return; // aborted iterations promise nothing
        std::map<std::string, std::string> got(s.scan_out.begin(), s.scan_out.end());
        bool truncated = s.op.max != 0 && s.scan_out.size() >= s.op.max;
        for (auto* p : points) {
            if ((p->op.kind != PUT && p->op.kind != UPUT) || p->st != status::OK) continue;
            const std::string& k = p->op.key;
            if (init_model.count(k) != 0) continue; // not an insert of a new key
            if (!key_in_range(k, s.op)) continue;
            if (truncated && !s.scan_out.empty()) {
                if (!s.op.r2l && k > s.scan_out.back().first) continue;
                if (s.op.r2l && k < s.scan_out.front().first) continue;
            }
            // was the key removed again by another op? then its absence needs no stale version: skip such programs
            bool removed_again = false;
            for (auto* q : points) {
                if (q->op.kind == REMOVE && q->op.key == k && q->st == status::OK) removed_again = true;
            }
            if (removed_again) continue;
            if (got.count(k) != 0) continue;
            bool stale = false;
            for (auto& pr : s.nv) {
                auto info = ykalloc::lookup(pr.second);
                if (info.found && !info.live) {
                    stale = true; // node was reclaimed: a validating transaction cannot accept it
                    break;
                }
                if (pr.second->get_stable_version() != pr.first) {
                    stale = true;
                    break;
                }
            }
            if (!stale) {
                fail(r, "phantom:undetected_insert",
                     "inserted key " + ykc::hex(k) + " is not in the scan result and all " + std::to_string(s.nv.size()) +
                             " recorded node versions are unchanged");
                return;
            }
        }
    }
};

inline std::unique_ptr<ykmc::Harness> make_tree(const ykc::Shape& sh, const std::vector<std::vector<Op>>& progs, unsigned oracles,
                                                const std::string& label) {
    auto h = std::make_unique<TreeHarness>();
    h->shape = sh;
    h->progs = progs;
    h->oracles = oracles;
    h->label = label;
    return h;
}

} // namespace th
