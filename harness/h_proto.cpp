// E1 protocol harnesses: sessions (C14), version word (C17), permutation reader (C19), epochs/reclamation (C07).
// Compiled once per session capacity (YAKUSHIMA_MAX_PARALLEL_SESSIONS = 1, 2, 3).
#include <memory>

#include "../engine/hmain.h"
#include "../engine/ykc.h"

extern "C" int yk_verif_yield(const char* file, int line);

using namespace yakushima;

static constexpr int kCapacity = YAKUSHIMA_MAX_PARALLEL_SESSIONS;

// =============================================================================================
// C14 sessions
// =============================================================================================
namespace sess {

enum K { ENTER, LEAVE };
struct Step {
    K k;
    int which; // index of the thread-local session variable (0/1)
};
struct Rec {
    int tid;
    K k;
    int which;
    uint64_t call = 0, ret = 0;
    status st{};
    Token tok = nullptr;
    bool begin_nonzero_at_return = true;
    bool counted_at_leave = true;
};

class H : public ykmc::Harness {
public:
    std::vector<std::vector<Step>> progs;
    std::vector<std::vector<Rec>> recs;
    std::string label;
    bool with_epoch_thread = false;
    int finished_workers = 0;

    std::string name() override { return label; }
    int nthreads() override { return int(progs.size()) + (with_epoch_thread ? 1 : 0); }
    int horizon(int tid) override { return tid >= int(progs.size()) ? 2 : 0; }
    void setup() override {
        ykc::reset_library_statics();
        recs.assign(progs.size(), {});
        finished_workers = 0;
    }
    uint64_t shared_digest() override {
        uint64_t h = epoch_management::epoch_.load() * 1000003u + garbage_collection::gc_epoch_.load();
        for (auto& ti : thread_info_table::thread_info_table_) {
            h = h * 1315423911u + (ti.running_.load() ? 7 : 3) + ti.begin_epoch_.load() * 131u;
        }
        h = h * 31u + uint64_t(finished_workers) + (epoch_manager::kEpochThreadEnd.load() ? 977 : 0);
        return h;
    }
    void body(int tid) override {
        if (tid >= int(progs.size())) {
            epoch_manager::epoch_thread();
            return;
        }
        Token toks[2] = {nullptr, nullptr};
        for (auto& s : progs[size_t(tid)]) {
            Rec r;
            r.tid = tid;
            r.k = s.k;
            r.which = s.which;
            if (s.k == ENTER) {
                r.call = ykmc::op_begin();
                Token t = nullptr;
                r.st = enter(t);
                if (r.st == status::OK) {
                    toks[s.which] = t;
                    r.tok = t;
                    auto* ti = static_cast<thread_info*>(t);
                    r.begin_nonzero_at_return = ti->begin_epoch_.load() != 0 && ti->running_.load();
                }
                r.ret = ykmc::op_end();
            } else {
                if (toks[s.which] == nullptr) continue; // the matching enter failed
                r.tok = toks[s.which];
                auto* ti = static_cast<thread_info*>(r.tok);
                r.counted_at_leave = ti->begin_epoch_.load() != 0 && ti->running_.load();
                r.call = ykmc::op_begin();
                r.st = leave(r.tok);
                r.ret = ykmc::op_end();
                toks[s.which] = nullptr;
            }
            recs[size_t(tid)].push_back(r);
        }
        if (with_epoch_thread) {
            ykmc::harness_point(ykmc::K_RMW, &finished_workers, 4, __LINE__);
            if (++finished_workers == int(progs.size())) {
                epoch_manager::set_epoch_thread_end();
                ykmc::release_parked();
            }
        }
    }
    void finish(ykmc::ExecResult& r) override {
        struct Sess {
            Token tok;
            uint64_t enter_call, enter_ret, leave_call, leave_ret;
        };
        std::vector<Sess> ss;
        std::ostringstream hist, dig;
        const uint64_t INF = ~uint64_t{0};
        for (auto& tr : recs) {
            std::map<Token, size_t> open;
            for (auto& rc : tr) {
                hist << "T" << rc.tid << (rc.k == ENTER ? " enter" : " leave") << "[" << rc.call << "," << rc.ret << "]->" << ykc::st_name(rc.st)
                     << " slot" << (rc.tok == nullptr ? -1 : int(static_cast<thread_info*>(rc.tok) - &thread_info_table::thread_info_table_[0])) << "; ";
                dig << int(rc.st) << ":" << (rc.tok == nullptr ? -1 : int(static_cast<thread_info*>(rc.tok) - &thread_info_table::thread_info_table_[0])) << "|";
                if (rc.k == ENTER && rc.st == status::OK) {
                    open[rc.tok] = ss.size();
                    ss.push_back({rc.tok, rc.call, rc.ret, INF, INF});
                    if (!rc.begin_nonzero_at_return) fail(r, "session:not_counted_at_return", "enter returned but the slot is not marked running with a begin epoch", hist.str());
                } else if (rc.k == LEAVE) {
                    auto it = open.find(rc.tok);
                    if (it != open.end()) {
                        ss[it->second].leave_call = rc.call;
                        ss[it->second].leave_ret = rc.ret;
                        open.erase(it);
                    }
                    if (!rc.counted_at_leave) fail(r, "session:not_counted_until_leave", "slot lost its begin epoch / running flag before leave was called", hist.str());
                }
            }
        }
        r.outcome = dig.str();
        // exclusive tokens
        for (size_t a = 0; a < ss.size(); ++a) {
            for (size_t b = a + 1; b < ss.size(); ++b) {
                if (ss[a].tok != ss[b].tok) continue;
                // open intervals [enter_ret, leave_call]
                bool overlap = ss[a].enter_ret < ss[b].leave_call && ss[b].enter_ret < ss[a].leave_call;
                if (overlap) fail(r, "session:token_shared", "two sessions that are open at the same time hold the same token", hist.str());
            }
        }
        // capacity: at every enter return, count open sessions
        for (auto& s : ss) {
            int open = 0;
            for (auto& o : ss) {
                if (o.enter_ret <= s.enter_ret && o.leave_call > s.enter_ret) open++;
            }
            if (open > kCapacity) fail(r, "session:over_capacity", std::to_string(open) + " sessions open with capacity " + std::to_string(kCapacity), hist.str());
        }
        // WARN_MAX_SESSIONS must be justified: every slot was occupied at some moment of the call
        for (auto& tr : recs) {
            for (auto& rc : tr) {
                if (rc.k == ENTER && rc.st != status::OK) {
                    if (rc.st != status::WARN_MAX_SESSIONS) {
                        fail(r, "session:bad_status", std::string("enter returned ") + ykc::st_name(rc.st), hist.str());
                        continue;
                    }
                    for (int slot = 0; slot < kCapacity; ++slot) {
                        Token t = &thread_info_table::thread_info_table_[size_t(slot)];
                        bool occupied = false;
                        for (auto& s : ss) {
                            if (s.tok == t && s.enter_call < rc.ret && s.leave_ret > rc.call) occupied = true;
                        }
                        if (!occupied) {
                            fail(r, "session:spurious_max_sessions",
                                 "enter returned WARN_MAX_SESSIONS although slot " + std::to_string(slot) + " was free during the whole call", hist.str());
                        }
                    }
                }
            }
        }
    }
    static void fail(ykmc::ExecResult& r, const std::string& sym, const std::string& d, const std::string& hist) {
        if (r.verdict != ykmc::V_OK) return;
        r.verdict = ykmc::V_VIOLATION;
        r.symptom = sym;
        r.detail = d + " || history: " + hist;
    }
};

static std::string pname(const std::vector<std::vector<Step>>& p) {
    std::string s;
    for (size_t i = 0; i < p.size(); ++i) {
        if (i != 0) s += "|";
        for (auto& st : p[i]) s += (st.k == ENTER ? "e" : "l") + std::to_string(st.which);
    }
    return s;
}

static void scenarios(std::vector<hm::Scenario>& out) {
    std::vector<Step> ele = {{ENTER, 0}, {LEAVE, 0}, {ENTER, 0}, {LEAVE, 0}};
    std::vector<Step> eell = {{ENTER, 0}, {ENTER, 1}, {LEAVE, 0}, {LEAVE, 1}};
    std::vector<Step> el = {{ENTER, 0}, {LEAVE, 0}};
    std::vector<Step> e = {{ENTER, 0}};
    std::vector<std::vector<std::vector<Step>>> ps = {
            {el, el}, {ele, ele}, {eell, el}, {eell, eell}, {e, e}, {el, el, el}, {ele, el, e}, {eell, el, el}, {e, e, e}, {ele, ele, el}};
    for (auto& p : ps) {
        for (int ep = 0; ep < 2; ++ep) {
            hm::Scenario sc;
            sc.name = "session/cap" + std::to_string(kCapacity) + "/" + pname(p) + (ep != 0 ? "+epoch" : "");
            sc.sigclass = "session:cap" + std::to_string(kCapacity);
            sc.bound_quick = p.size() == 2 ? 3 : 2;
            sc.bound_thorough = ep != 0 ? (p.size() == 2 ? 5 : 4) : 64; // without the epoch thread: stateful, effectively unbounded
            sc.thorough_single_pass = ep == 0;
            sc.quick = true;
            sc.stateful = true;
            sc.cls_mask = (1u << ykmc::C_SESSION) | (1u << ykmc::C_EPOCH) | (1u << ykmc::C_HARNESS) | (1u << ykmc::C_STOP);
            auto pp = p;
            std::string nm = sc.name;
            bool wep = ep != 0;
            sc.make = [pp, nm, wep]() {
                auto h = std::make_unique<H>();
                h->progs = pp;
                h->label = nm;
                h->with_epoch_thread = wep;
                return h;
            };
            out.push_back(sc);
        }
    }
}
} // namespace sess

// =============================================================================================
// C17 version word
// =============================================================================================
namespace ver {

struct LockerProg {
    bool ins, spl;
    int rounds;
};

class H : public ykmc::Harness {
public:
    std::vector<LockerProg> lockers;
    int readers = 1;
    int flaggers = 0; // threads that set root / deleted / bump the counter WITHOUT holding the lock (the tree does this under the parent's lock)
    std::string label;
    node_version64 v;
    uint64_t start_word = 0;
    int cell = 0;       // protected by the lock (non-atomic read-modify-write)
    int in_cs = 0;
    bool mutex_violated = false;
    struct Unlock {
        uint64_t call, ret;
        bool ins, spl;
    };
    std::vector<Unlock> unlocks;
    struct Read {
        uint64_t call, ret;
        node_version64_body b;
    };
    std::vector<std::vector<Read>> reads;

    std::string name() override { return label; }
    int nthreads() override { return int(lockers.size()) + readers + flaggers; }
    uint64_t shared_digest() override {
        uint64_t w = 0;
        auto b = v.body_.load();
        memcpy(&w, &b, 8);
        return w * 1000003u + uint64_t(cell) * 31u + uint64_t(in_cs);
    }
    void setup() override {
        node_version64_body b{};
        memcpy(static_cast<void*>(&b), &start_word, 8);
        v.body_.store(b);
        cell = 0;
        in_cs = 0;
        mutex_violated = false;
        unlocks.clear();
        reads.assign(size_t(readers), {});
    }
    void body(int tid) override {
        if (tid < int(lockers.size())) {
            const LockerProg& p = lockers[size_t(tid)];
            for (int i = 0; i < p.rounds; ++i) {
                ykmc::op_begin();
                v.lock();
                ykmc::op_end();
                if (in_cs != 0) mutex_violated = true;
                in_cs++;
                ykmc::harness_point(ykmc::K_LOAD, &cell, 4, __LINE__);
                int c = cell;
                if (p.ins) v.atomic_set_inserting_deleting(true);
                if (p.spl) v.atomic_set_splitting(true);
                ykmc::harness_point(ykmc::K_STORE, &cell, 4, __LINE__);
                cell = c + 1;
                if (in_cs != 1) mutex_violated = true;
                in_cs--;
                Unlock u{};
                u.ins = p.ins;
                u.spl = p.spl;
                u.call = ykmc::op_begin();
                v.unlock();
                u.ret = ykmc::op_end();
                unlocks.push_back(u);
            }
        } else if (tid >= int(lockers.size()) + readers) {
            int f = tid - int(lockers.size()) - readers;
            ykmc::op_begin();
            if (f == 0) {
                v.atomic_set_root(true);
                v.atomic_inc_vinsert();
            } else {
                v.atomic_set_deleted(true);
                v.atomic_set_border(true);
            }
            ykmc::op_end();
        } else {
            size_t ri = size_t(tid) - lockers.size();
            for (int i = 0; i < 2; ++i) {
                Read rd{};
                rd.call = ykmc::op_begin();
                rd.b = v.get_stable_version();
                rd.ret = ykmc::op_end();
                reads[ri].push_back(rd);
            }
        }
    }
    void finish(ykmc::ExecResult& r) override {
        std::ostringstream dig;
        auto fb = v.body_.load();
        node_version64_body sb{};
        memcpy(static_cast<void*>(&sb), &start_word, 8);
        int total = 0, nins = 0, nspl = 0;
        for (auto& p : lockers) {
            total += p.rounds;
            if (p.ins) nins += p.rounds;
            if (p.spl) nspl += p.rounds;
        }
        dig << cell << ":" << fb.get_vinsert_delete() << ":" << fb.get_vsplit();
        for (auto& rv : reads) {
            for (auto& rd : rv) dig << "|" << rd.b.get_vinsert_delete() << "," << rd.b.get_vsplit();
        }
        r.outcome = dig.str();
        auto fail = [&](const std::string& s, const std::string& d) {
            if (r.verdict != ykmc::V_OK) return;
            r.verdict = ykmc::V_VIOLATION;
            r.symptom = s;
            r.detail = d + " || outcome " + r.outcome;
        };
        if (mutex_violated) fail("version:mutual_exclusion", "two threads were inside the locked region at the same time");
        if (cell != total) fail("version:lost_update", "non-atomic counter under the lock lost an update: " + std::to_string(cell) + " of " + std::to_string(total));
        constexpr uint32_t M = (1u << 29) - 1;
        if (fb.get_locked() || fb.get_inserting_deleting() || fb.get_splitting()) fail("version:dirty_at_end", "lock or dirty bit left set");
        if (flaggers > 0) nins += 1; // flagger 0 bumps the counter once
        if (fb.get_vinsert_delete() != ((sb.get_vinsert_delete() + uint32_t(nins)) & M)) fail("version:vinsert_count", "insert counter does not equal the number of flagged unlocks (+ explicit increments)");
        if (fb.get_vsplit() != ((sb.get_vsplit() + uint32_t(nspl)) & M)) fail("version:vsplit_count", "split counter does not equal the number of flagged unlocks");
        bool want_root = sb.get_root() || flaggers > 0, want_del = sb.get_deleted() || flaggers > 1, want_border = sb.get_border() || flaggers > 1;
        if (fb.get_deleted() != want_del || fb.get_root() != want_root || fb.get_border() != want_border) fail("version:flag_clobbered", "a deleted/root/border update by a thread that does not hold the lock was lost or a flag changed spontaneously");
        for (auto& rv : reads) {
            for (auto& rd : rv) {
                if (rd.b.get_locked() || rd.b.get_inserting_deleting() || rd.b.get_splitting()) fail("version:unstable_returned", "get_stable_version returned a locked or dirty word");
            }
            if (rv.size() == 2 && rv[0].b == rv[1].b) {
                for (auto& u : unlocks) {
                    if ((u.ins || u.spl) && u.call > rv[0].ret && u.ret < rv[1].call) {
                        fail("version:equal_versions_despite_change", "two equal stable versions although a flagged unlock completed in between");
                    }
                }
            }
        }
    }
};

static void scenarios(std::vector<hm::Scenario>& out) {
    struct Cfg {
        std::vector<LockerProg> l;
        int readers;
        uint64_t start;
        const char* nm;
        int flaggers = 0;
    };
    node_version64_body wrap{};
    wrap.init();
    for (int i = 0; i < (1 << 29) - 1; i += (1 << 29) - 1) {}
    // start words: zero, and both counters one below the wrap with border+root set
    uint64_t w0 = 0;
    uint64_t w1 = 0;
    {
        node_version64_body b{};
        b.init();
        b.set_border(true);
        b.set_root(true);
        // counters = 2^29-1
        uint64_t raw = 0;
        memcpy(&raw, &b, 8);
        raw |= uint64_t((1u << 29) - 1);
        raw |= uint64_t((1u << 29) - 1) << 32;
        w1 = raw;
    }
    std::vector<Cfg> cfgs = {
            {{{true, false, 1}, {false, true, 1}}, 1, w0, "ins|spl+r"},
            {{{true, true, 1}, {false, false, 1}}, 1, w1, "both|none+r@wrap"},
            {{{true, false, 2}, {true, false, 1}}, 1, w1, "ins2|ins+r@wrap"},
            {{{true, false, 1}, {false, true, 1}, {true, true, 1}}, 1, w0, "ins|spl|both+r"},
            {{{true, false, 1}, {false, true, 1}}, 2, w0, "ins|spl+2r"},
            {{{false, false, 2}, {false, false, 2}}, 1, w0, "none2|none2+r"},
            {{{true, true, 1}}, 0, w0, "both+flag", 1},
            {{{true, false, 1}, {false, true, 1}}, 0, w0, "ins|spl+flag2", 2},
            {{{true, true, 1}}, 1, w0 | (uint64_t((1u << 29) - 1)), "both+flag+r@wrap", 1},
    };
    for (auto& c : cfgs) {
        hm::Scenario sc;
        sc.name = std::string("version/") + c.nm;
        sc.sigclass = "version";
        sc.bound_quick = c.l.size() + size_t(c.readers) + size_t(c.flaggers) > 3 ? 2 : 3;
        bool small = (c.l.size() == 2 && c.readers == 1 && c.l[0].rounds + c.l[1].rounds == 2) || (c.l.size() == 1 && c.flaggers == 1);
        sc.bound_thorough = small ? 64 : 5;
        sc.thorough_single_pass = small;
        sc.stateful = true;
        sc.cls_mask = (1u << ykmc::C_TREE) | (1u << ykmc::C_HARNESS);
        Cfg cc = c;
        std::string nm = sc.name;
        sc.make = [cc, nm]() {
            auto h = std::make_unique<H>();
            h->lockers = cc.l;
            h->readers = cc.readers;
            h->flaggers = cc.flaggers;
            h->start_word = cc.start;
            h->label = nm;
            return h;
        };
        out.push_back(sc);
    }
}
} // namespace ver

// =============================================================================================
// C19 permutation: a concurrent reader sees the old or the new word, never a mixture
// =============================================================================================
namespace perm {
class H : public ykmc::Harness {
public:
    std::string label;
    int op = 0; // 0 insert_rank, 1 delete_rank, 2 split_dest, 3 rearrange
    permutation p;
    uint64_t before = 0, after_expect = 0;
    std::vector<uint64_t> seen;
    std::array<key_slice_type, key_slice_length> ks{};
    std::array<key_length_type, key_slice_length> kl{};
    std::string name() override { return label; }
    int nthreads() override { return 2; }
    uint64_t shared_digest() override { return p.body_.load(); }
    void setup() override {
        p.body_.store(0);
        for (int i = 0; i < 5; ++i) p.insert_rank(size_t(i), size_t(4 - i));
        for (size_t i = 0; i < key_slice_length; ++i) {
            ks[i] = (i * 7 + 3) % 5 + 1;
            kl[i] = 1;
        }
        before = p.body_.load();
        seen.clear();
    }
    void body(int tid) override {
        if (tid == 0) {
            switch (op) {
                case 0: p.insert_rank(2, p.get_empty_slot()); break;
                case 1: p.delete_rank(1); break;
                case 2: p.split_dest(7); break;
                default: p.rearrange(ks, kl); break;
            }
        } else {
            for (int i = 0; i < 3; ++i) seen.push_back(p.get_body());
        }
    }
    void finish(ykmc::ExecResult& r) override {
        uint64_t after = p.body_.load();
        std::ostringstream d;
        for (auto s : seen) d << (s == before ? "o" : (s == after ? "n" : "X"));
        r.outcome = d.str();
        for (auto s : seen) {
            if (s != before && s != after) {
                r.verdict = ykmc::V_VIOLATION;
                r.symptom = "perm:intermediate_word_visible";
                r.detail = "reader saw a permutation word that is neither the old nor the new ordering";
            }
        }
        for (size_t i = 1; i < seen.size(); ++i) {
            if (seen[i - 1] == after && seen[i] == before && before != after) {
                r.verdict = ykmc::V_VIOLATION;
                r.symptom = "perm:went_back";
                r.detail = "reader saw the new word and then the old one";
            }
        }
    }
};
static void scenarios(std::vector<hm::Scenario>& out) {
    const char* names[] = {"insert_rank", "delete_rank", "split_dest", "rearrange"};
    for (int op = 0; op < 4; ++op) {
        hm::Scenario sc;
        sc.name = std::string("perm/") + names[op];
        sc.sigclass = "perm";
        sc.bound_quick = 8;
        sc.bound_thorough = 8;
        sc.cls_mask = (1u << ykmc::C_TREE);
        std::string nm = sc.name;
        sc.make = [op, nm]() {
            auto h = std::make_unique<H>();
            h->op = op;
            h->label = nm;
            return h;
        };
        out.push_back(sc);
    }
}
} // namespace perm

// =============================================================================================
// C07 epochs and reclamation
// =============================================================================================
namespace ep {

enum WKind { W_REMOVE, W_OVERWRITE, W_REMOVE_LAST_OF_NODE, W_COLLAPSE };
enum RKind { R_GET, R_SCAN, R_ISCAN, R_PUT_CREATED, R_GETMISS_NV, R_SCAN_NV, R_PUT_NV };

struct Cfg {
    WKind w;
    RKind r;
    bool third = false;  // a short lived third session (enter; leave)
    bool fine = false;   // tree accesses are choice points too
    bool pre = false;    // the writer's session is already open (in slot 1, slot 0 free again) when the threads start
    int ehz = 3, ghz = 2;
};

class H : public ykmc::Harness {
public:
    Cfg cfg;
    std::string label;
    tree_instance* ti = nullptr;
    int finished_workers = 0;
    int nworkers = 2;
    // reader observations
    const char* vptr = nullptr;
    std::string vbytes;
    node_version64* nvp = nullptr;
    bool reader_got = false;
    std::string problem, problem_sym;
    std::string key, key2;
    status wst{}, rst{};
    Token pre_token = nullptr;

    std::string name() override { return label; }
    int nthreads() override {
        nworkers = cfg.third ? 3 : 2; // called before setup()
        return nworkers + 2;
    }
    int horizon(int tid) override {
        if (tid == nworkers) return cfg.ehz;
        if (tid == nworkers + 1) return cfg.ghz;
        return 0;
    }
    uint64_t shared_digest() override { return 0; }

    void setup() override {
        ykc::sequential_teardown_mode();
        ykc::reset_library_statics();
        ykalloc::clear_errors();
        ykalloc::begin_tracking();
        nworkers = cfg.third ? 3 : 2;
        finished_workers = 0;
        vptr = nullptr;
        nvp = nullptr;
        reader_got = false;
        problem.clear();
        problem_sym.clear();
        ti = new tree_instance();
        Token t{};
        enter(t);
        auto shapes = ykc::all_shapes();
        const ykc::Shape* sh = nullptr;
        switch (cfg.w) {
            case W_REMOVE:
            case W_OVERWRITE:
                sh = ykc::find_shape(shapes, "B3");
                key = "20";
                key2 = "20";
                break;
            case W_REMOVE_LAST_OF_NODE:
                sh = ykc::find_shape(shapes, "I3_8_1_8");
                key = "09";
                key2 = "095"; // absent key that lands in the node holding only "09"
                break;
            case W_COLLAPSE:
                sh = ykc::find_shape(shapes, "I2_1_8");
                key = "08";
                key2 = "07";
                break;
        }
        ykc::build_shape(*sh, t, ti);
        leave(t);
        ykc::drain_retired(); // nothing retired by the setup may be attributed to the sessions under test
        pre_token = nullptr;
        if (cfg.pre) {
            // sessions in different slots: a short session took slot 0 and left again, the writer sits in slot 1
            Token dummy{};
            enter(dummy);
            enter(pre_token);
            leave(dummy);
        }
    }

    void note(const std::string& sym, const std::string& d) {
        if (problem.empty()) {
            problem_sym = sym;
            problem = d;
        }
    }

    void worker_done() {
        ykmc::harness_point(ykmc::K_RMW, &finished_workers, 4, __LINE__);
        if (++finished_workers == nworkers) {
            epoch_manager::set_epoch_thread_end();
            epoch_manager::set_gc_thread_end();
            ykmc::release_parked();
        }
    }

    void check_value_alive(const char* when) {
        if (vptr == nullptr) return;
        auto info = ykalloc::lookup(vptr);
        if (info.found && !info.live) {
            note("epoch:value_freed_while_session_open", std::string("value pointer obtained in an open session was released ") + when);
            return;
        }
        if (std::string(vptr, vbytes.size()) != vbytes) {
            note("epoch:value_changed_while_session_open", std::string("bytes behind a value pointer changed ") + when);
        }
    }
    void check_node_alive(const char* when) {
        if (nvp == nullptr) return;
        auto info = ykalloc::lookup(nvp);
        if (info.found && !info.live) {
            note("epoch:node_freed_while_session_open", std::string("node version pointer obtained in an open session was released ") + when);
        }
    }

    void body(int tid) override {
        if (tid == nworkers) {
            epoch_manager::epoch_thread();
            return;
        }
        if (tid == nworkers + 1) {
            epoch_manager::gc_thread();
            return;
        }
        if (tid == 0) {
            // writer session
            Token t = pre_token;
            if (t == nullptr) {
                ykmc::op_begin();
                enter(t);
                ykmc::op_end();
            }
            ykmc::op_begin();
            switch (cfg.w) {
                case W_OVERWRITE: wst = ykc::t_put(t, ti, key, ykc::val_of(key, 3)); break;
                default: wst = ykc::t_remove(t, ti, key); break;
            }
            ykmc::op_end();
            ykmc::op_begin();
            leave(t);
            ykmc::op_end();
        } else if (tid == 1) {
            Token t{};
            ykmc::op_begin();
            enter(t);
            ykmc::op_end();
            ykmc::op_begin();
            switch (cfg.r) {
                case R_GET: {
                    auto g = ykc::t_get(ti, key);
                    rst = g.st;
                    if (g.st == status::OK && !g.null_ok) {
                        vptr = g.ptr;
                        vbytes = g.bytes;
                    }
                    break;
                }
                case R_SCAN:
                case R_SCAN_NV: {
                    std::vector<ykc::ScanTuple> out;
                    ykc::NvVec nv;
                    rst = ykc::t_scan(ti, "", scan_endpoint::INF, "", scan_endpoint::INF, out, cfg.r == R_SCAN_NV ? &nv : nullptr);
                    for (auto& tp : out) {
                        if (std::get<0>(tp) == key && std::get<1>(tp) != nullptr) {
                            vptr = std::get<1>(tp);
                            vbytes.assign(std::get<1>(tp), std::get<2>(tp));
                        }
                    }
                    if (cfg.r == R_SCAN_NV) {
                        // keep the version pointer of the node that held the key
                        for (std::size_t i = 0; i < out.size() && i < nv.size(); ++i) {
                            if (std::get<0>(out[i]) == key) nvp = nv[i].second;
                        }
                        vptr = nullptr;
                    }
                    break;
                }
                case R_ISCAN: {
                    iscan_context* ctx = nullptr;
                    void* val = nullptr;
                    rst = iscan_open(ti, key, scan_endpoint::INCLUSIVE, "", scan_endpoint::INF, ctx, val, dummycallback, false, false);
                    if (rst == status::OK && val != nullptr && ctx->full_key() == key) {
                        vptr = static_cast<const char*>(val);
                        vbytes = ykc::val_of(key);
                        if (std::string(vptr, vbytes.size()) != vbytes) vbytes.assign(vptr, vbytes.size());
                    }
                    iscan_close(ctx);
                    break;
                }
                case R_PUT_CREATED: {
                    char* created = nullptr;
                    std::string k2 = "15";
                    std::string v = ykc::val_of(k2, 1);
                    rst = ykc::t_put(t, ti, k2, v, false, nullptr, &created);
                    vptr = created;
                    vbytes = v;
                    break;
                }
                case R_GETMISS_NV: {
                    std::pair<node_version64_body, node_version64*> cv{};
                    auto g = ykc::t_get(ti, key2, &cv);
                    rst = g.st;
                    if (g.st == status::WARN_NOT_EXIST) nvp = cv.second;
                    break;
                }
                case R_PUT_NV: {
                    inserted_node_info info{};
                    rst = ykc::t_put(t, ti, key2, ykc::val_of(key2, 1), false, &info);
                    nvp = info.modified_nvp;
                    break;
                }
            }
            ykmc::op_end();
            reader_got = vptr != nullptr || nvp != nullptr;
            // hold the pointers while everything else may run
            for (int i = 0; i < 2; ++i) {
                yk_verif_yield(__FILE__, __LINE__);
                check_value_alive("while its session was still open");
                check_node_alive("while its session was still open");
            }
            ykmc::op_begin();
            leave(t);
            ykmc::op_end();
        } else {
            Token t{};
            ykmc::op_begin();
            enter(t);
            ykmc::op_end();
            yk_verif_yield(__FILE__, __LINE__);
            ykmc::op_begin();
            leave(t);
            ykmc::op_end();
        }
        worker_done();
    }

    void finish(ykmc::ExecResult& r) override {
        std::ostringstream d;
        d << int(wst) << "|" << int(rst) << "|" << (reader_got ? 1 : 0) << "|e" << epoch_management::epoch_.load() << "g" << garbage_collection::gc_epoch_.load();
        r.outcome = d.str();
        if (!problem.empty()) {
            r.verdict = ykmc::V_VIOLATION;
            r.symptom = problem_sym;
            r.detail = problem + " || outcome " + r.outcome;
        }
        if (!ykalloc::errors().empty() && r.verdict == ykmc::V_OK) {
            r.verdict = ykmc::V_VIOLATION;
            r.symptom = "epoch:allocator_error";
            r.detail = ykalloc::errors()[0];
        }
        ykc::drain_retired();
        ykc::destroy_tree(ti);
        delete ti;
        ti = nullptr;
        ykalloc::end_tracking();
        if (r.verdict == ykmc::V_OK && ykalloc::live_aligned() != 0) {
            r.verdict = ykmc::V_VIOLATION;
            r.symptom = "leak:blocks_left";
            r.detail = std::to_string(ykalloc::live_aligned()) + " node/value blocks left after teardown";
        }
    }
};

static void scenarios(std::vector<hm::Scenario>& out) {
    const char* wn[] = {"remove", "overwrite", "remove_last_of_node", "collapse"};
    const char* rn[] = {"get", "scan", "iscan", "put_created", "getmiss_nv", "scan_nv", "put_nv"};
    struct P {
        WKind w;
        RKind r;
        bool quick;
    };
    std::vector<P> ps = {{W_REMOVE, R_GET, true},      {W_OVERWRITE, R_GET, true},          {W_REMOVE, R_SCAN, false},
                         {W_REMOVE, R_ISCAN, false},   {W_OVERWRITE, R_SCAN, false},        {W_REMOVE_LAST_OF_NODE, R_GETMISS_NV, true},
                         {W_REMOVE_LAST_OF_NODE, R_SCAN_NV, false}, {W_COLLAPSE, R_GETMISS_NV, false}, {W_REMOVE_LAST_OF_NODE, R_GET, false},
                         {W_OVERWRITE, R_PUT_CREATED, false}};
    for (auto& p : ps) {
        for (int third = 0; third < 4; ++third) {
            bool pre = third >= 2;
            bool short_epoch = third == 3; // the epoch thread parks after one period: the gc pass that follows is a free choice
            if (pre && !(p.quick)) continue;
            hm::Scenario sc;
            sc.name = std::string("epoch/coarse/") + wn[p.w] + "-vs-" + rn[p.r] + (third == 1 ? "+third" : (short_epoch ? "+pre+e1" : (pre ? "+pre" : "")));
            sc.sigclass = std::string("epoch:") + wn[p.w] + "-vs-" + rn[p.r];
            sc.bound_quick = 2;
            sc.bound_thorough = (p.quick && third != 1) ? 3 : 2;
            sc.quick = p.quick && (third == 0 || third == 3 || (third == 1 && p.w == W_REMOVE && p.r == R_GET)); // +pre (long epoch horizon) is thorough only
            sc.cls_mask = (1u << ykmc::C_SESSION) | (1u << ykmc::C_EPOCH) | (1u << ykmc::C_GCQ) | (1u << ykmc::C_STOP) | (1u << ykmc::C_HARNESS);
            Cfg c;
            c.w = p.w;
            c.r = p.r;
            c.third = third == 1;
            c.pre = pre;
            if (short_epoch) c.ehz = 1;
            std::string nm = sc.name;
            sc.make = [c, nm]() {
                auto h = std::make_unique<H>();
                h->cfg = c;
                h->label = nm;
                return h;
            };
            out.push_back(sc);
        }
    }
}
} // namespace ep

int main(int argc, char** argv) {
    hm::Args a = hm::parse(argc, argv);
    std::string family = a.extra.empty() ? "session" : a.extra[0];
    std::vector<hm::Scenario> sc;
    if (family == "session") sess::scenarios(sc);
    if (family == "version") ver::scenarios(sc);
    if (family == "perm") perm::scenarios(sc);
    if (family == "epoch") ep::scenarios(sc);
    return hm::run_main("h_proto", sc, a);
}
