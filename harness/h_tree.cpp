// E1 tree harness binary: scenario families lin (C01/C15), scanc (C04), phantom (C06), struct (C08), locks (C09).
#include "tree_harness.h"
#include "ddl_harness.h"

using namespace th;

static std::string kind_name(OpKind k) {
    switch (k) {
        case GET: return "get";
        case PUT: return "put";
        case UPUT: return "uput";
        case REMOVE: return "remove";
        case SCAN: return "scan";
        case ISCAN: return "iscan";
    }
    return "?";
}

static std::string sigclass_of(const std::vector<std::vector<Op>>& progs) {
    // kinds in canonical order + whether all point ops hit one key
    std::vector<std::string> ks;
    std::set<std::string> keys;
    for (auto& p : progs) {
        for (auto& o : p) {
            ks.push_back(kind_name(o.kind));
            if (o.kind != SCAN) keys.insert(o.key);
        }
    }
    std::sort(ks.begin(), ks.end());
    std::string s;
    for (auto& k : ks) s += (s.empty() ? "" : "+") + k;
    s += keys.size() <= 1 ? ":samekey" : ":keys" + std::to_string(keys.size());
    return s;
}

static std::string prog_name(const std::vector<std::vector<Op>>& progs) {
    std::string s;
    for (std::size_t i = 0; i < progs.size(); ++i) {
        if (i != 0) s += "|";
        for (std::size_t k = 0; k < progs[i].size(); ++k) s += (k != 0 ? ";" : "") + op_name(progs[i][k]);
    }
    return s;
}

static void add(std::vector<hm::Scenario>& out, const std::string& family, const ykc::Shape& sh,
                const std::vector<std::vector<Op>>& progs, unsigned oracles, bool quick, int bq, int bt) {
    hm::Scenario sc;
    sc.name = family + "/" + sh.name + "/" + prog_name(progs);
    sc.sigclass = family + ":" + (family == "iscanc" ? sh.name + ":" : std::string()) + sigclass_of(progs);
    sc.quick = quick;
    sc.bound_quick = bq;
    sc.bound_thorough = bt;
    // tree harnesses: session/epoch/gc accesses are thread private here (no background threads): no choice points
    sc.cls_mask = (1u << ykmc::C_TREE) | (1u << ykmc::C_HARNESS);
    ykc::Shape shc = sh;
    std::string nm = sc.name;
    sc.make = [shc, progs, oracles, nm]() { return make_tree(shc, progs, oracles, nm); };
    out.push_back(sc);
}

static std::vector<std::string> pal_keys(const ykc::Shape& sh) {
    std::vector<std::string> v;
    for (auto& kv : sh.pal) {
        if (kv.first == "pfx") continue;
        if (std::find(v.begin(), v.end(), kv.second) == v.end()) v.push_back(kv.second);
    }
    std::sort(v.begin(), v.end());
    return v;
}

static Op mk(OpKind k, const std::string& key, int gen = 1) {
    Op o;
    o.kind = k;
    o.key = key;
    o.gen = gen;
    return o;
}
static Op mkscan(const std::string& l, scan_endpoint le, const std::string& r, scan_endpoint re, std::size_t max, bool r2l, bool nv) {
    Op o;
    o.kind = SCAN;
    o.key = l;
    o.le = le;
    o.rkey = r;
    o.re = re;
    o.max = max;
    o.r2l = r2l;
    o.want_nv = nv;
    return o;
}
static std::set<std::string> initial_keys(const ykc::Shape& sh) {
    std::set<std::string> init(sh.inserts.begin(), sh.inserts.end());
    for (auto& r : sh.removes) init.erase(r);
    return init;
}

static void family_lin(std::vector<hm::Scenario>& out, unsigned oracles) {
    auto shapes = ykc::all_shapes();
    shapes.push_back(ykc::shape_ifull());
    const std::set<std::string> cross_quick = {"B15", "I3_8_1_8", "L1full", "L1I2_1_8", "I2_1_8", "NOROOT", "EMPTYROOT", "L1one"};
    for (auto& sh : shapes) {
        auto keys = pal_keys(sh);
        std::vector<Op> alphabet;
        for (auto& k : keys) {
            for (OpKind kd : {GET, PUT, UPUT, REMOVE}) {
                Op o;
                o.kind = kd;
                o.key = k;
                alphabet.push_back(o);
            }
        }
        for (std::size_t a = 0; a < alphabet.size(); ++a) {
            for (std::size_t b = a; b < alphabet.size(); ++b) {
                Op x = alphabet[a], y = alphabet[b];
                if (x.kind == GET && y.kind == GET) continue;
                bool same = x.key == y.key;
                x.gen = 1;
                y.gen = 2;
                bool present_x = false, present_y = false;
                {
                    std::set<std::string> init(sh.inserts.begin(), sh.inserts.end());
                    for (auto& r : sh.removes) init.erase(r);
                    present_x = init.count(x.key) != 0;
                    present_y = init.count(y.key) != 0;
                }
                // drop pairs in which neither op can change anything (e.g. remove of absent + get)
                auto writes = [](const Op& o, bool present) {
                    if (o.kind == GET) return false;
                    if (o.kind == UPUT && present) return false;
                    if (o.kind == REMOVE && !present) return false;
                    return true;
                };
                if (!writes(x, present_x) && !writes(y, present_y) && !same) continue;
                bool quick = same || (cross_quick.count(sh.name) != 0 && writes(x, present_x) && writes(y, present_y));
                if (sh.name == "IFULL") quick = false;
                add(out, "lin", sh, {{x}, {y}}, oracles, quick, 2, 3);
            }
        }
    }
    // a reader of one key races a structural writer on another key of the same or the neighbouring node (split, node removal,
    // interior insert / split / collapse, layer root replacement): the reader has to find its key wherever it moved
    {
        struct RW { const char* shape; const char* reader_key; OpKind wk; const char* writer_key; };
        const std::vector<RW> rws = {
                {"B15", "in", PUT, "new"}, {"B15", "edge", PUT, "new"}, {"B15", "in2", PUT, "new2"}, {"B15", "first", PUT, "new2"},
                {"I2_8_15", "in2", PUT, "new"}, {"I2_8_15", "edge", PUT, "new"}, {"I2_8_15", "edge", PUT, "new2"}, {"I2_8_15", "in", PUT, "new"},
                {"I3_8_1_8", "in", REMOVE, "only"}, {"I3_8_1_8", "in2", REMOVE, "only"}, {"I3_8_1_8", "edge", REMOVE, "only"},
                {"I2_1_8", "in2", REMOVE, "only"}, {"I2_1_8", "edge", REMOVE, "only"}, {"I2_8_1", "in", REMOVE, "only"},
                {"L1full", "inL", PUT, "newL"}, {"L1full", "inL2", PUT, "newL"}, {"L1full", "inL2", PUT, "newL2"}, {"L1full", "in", PUT, "newL"},
                {"L1I2_1_8", "inL", REMOVE, "only"}, {"L1I2_1_8", "inL2", REMOVE, "only"}, {"L1I2_1_8", "in", REMOVE, "only"},
                {"L1one", "in", REMOVE, "only"}, {"L1_3", "inL", REMOVE, "inL2"}, {"L2", "inLL", REMOVE, "inLL2"}, {"L2", "inL", REMOVE, "inLL"},
                {"IFULL", "in2", PUT, "new"}, {"IFULL", "edge", PUT, "new"}, {"IFULL", "in", PUT, "new"}, {"IFULL", "in", PUT, "new2"},
        };
        for (auto& rw : rws) {
            const ykc::Shape* sh = ykc::find_shape(shapes, rw.shape);
            if (sh == nullptr || sh->pal.count(rw.reader_key) == 0 || sh->pal.count(rw.writer_key) == 0) continue;
            add(out, "lin", *sh, {{mk(GET, sh->pal.at(rw.reader_key))}, {mk(rw.wk, sh->pal.at(rw.writer_key), 2)}}, oracles, true, 2, 3);
        }
        const ykc::Shape* ifull = ykc::find_shape(shapes, "IFULL");
        add(out, "lin", *ifull, {{mk(PUT, ifull->pal.at("new"), 1)}, {mk(PUT, ifull->pal.at("new2"), 2)}}, oracles, true, 2, 2);
        add(out, "lin", *ifull, {{mk(PUT, ifull->pal.at("new"), 1)}, {mk(REMOVE, ifull->pal.at("in"))}}, oracles, true, 2, 2);
    }
    // slot reuse (ABA): a reader of k races a writer that removes k and inserts another key into the freed slot,
    // or removes and re-inserts k itself
    for (auto& sh : shapes) {
        if (sh.pal.count("in") == 0 || sh.name == "IFULL") continue;
        std::vector<std::string> newkeys;
        for (const char* nk : {"new", "new2", "long"}) {
            if (sh.pal.count(nk) != 0) newkeys.push_back(sh.pal.at(nk));
        }
        std::vector<std::string> targets = {sh.pal.at("in")};
        if (sh.pal.count("inL") != 0) targets.push_back(sh.pal.at("inL"));
        if (sh.pal.count("only") != 0) targets.push_back(sh.pal.at("only"));
        std::sort(targets.begin(), targets.end());
        targets.erase(std::unique(targets.begin(), targets.end()), targets.end());
        for (auto& k : targets) {
            for (auto& nk : newkeys) {
                add(out, "lin", sh, {{mk(GET, k)}, {mk(REMOVE, k), mk(PUT, nk, 2)}}, oracles, true, 2, 3);
                add(out, "lin", sh, {{mk(REMOVE, k, 1)}, {mk(REMOVE, k), mk(PUT, nk, 2)}}, oracles, false, 2, 2);
                add(out, "lin", sh, {{mk(PUT, k, 3)}, {mk(REMOVE, k), mk(PUT, nk, 2)}}, oracles, false, 2, 2);
            }
            add(out, "lin", sh, {{mk(GET, k)}, {mk(REMOVE, k), mk(PUT, k, 2)}}, oracles, true, 2, 3);
            add(out, "lin", sh, {{mk(GET, k)}, {mk(PUT, k, 2), mk(REMOVE, k)}}, oracles, true, 2, 3);
            add(out, "lin", sh, {{mk(UPUT, k, 3)}, {mk(REMOVE, k), mk(PUT, k, 2)}}, oracles, false, 2, 2);
        }
    }
    // three threads on one key (B3, L1one) and 2x2 programs
    for (const char* sn : {"B3", "L1one", "I2_1_8"}) {
        const ykc::Shape* sh = ykc::find_shape(shapes, sn);
        std::string k = sh->pal.count("only") != 0 ? sh->pal.at("only") : sh->pal.at("in");
        Op g, p, rm, u;
        g.kind = GET;
        p.kind = PUT;
        p.gen = 1;
        rm.kind = REMOVE;
        u.kind = UPUT;
        u.gen = 2;
        g.key = p.key = rm.key = u.key = k;
        add(out, "lin", *sh, {{g}, {p}, {rm}}, oracles, false, 2, 2);
        add(out, "lin", *sh, {{g}, {u}, {rm}}, oracles, false, 2, 2);
        add(out, "lin", *sh, {{rm, u}, {g, g}}, oracles, false, 2, 2);
        add(out, "lin", *sh, {{rm, p}, {p, g}}, oracles, false, 2, 2);
    }
}

// writer operations that matter for a scanner on this shape: insert / update / remove on every palette key
static std::vector<Op> writer_ops(const ykc::Shape& sh) {
    std::vector<Op> w;
    auto init = initial_keys(sh);
    for (auto& k : pal_keys(sh)) {
        w.push_back(mk(PUT, k, 2));
        if (init.count(k) != 0) w.push_back(mk(REMOVE, k));
    }
    return w;
}

static void family_scanc(std::vector<hm::Scenario>& out, unsigned oracles, bool with_nv, const char* fam) {
    auto shapes = ykc::all_shapes();
    const std::vector<std::string> use = {"B3", "B15", "I2_8_8", "I2_1_8", "I3_8_1_8", "I2_8_15", "L1one", "L1_3", "L1full", "L1I2_1_8", "L2", "EMPTYROOT", "I2_1_1", "I3_1_1_1", "B15Lhi", "B15Llo"};
    const std::set<std::string> quick_shapes = {"B3", "B15", "I3_8_1_8", "L1one", "L1full", "L1I2_1_8", "I2_8_15"};
    {
        // interior split cascade with a new root under a scan
        ykc::Shape ifull = ykc::shape_ifull();
        Op full = mkscan("", scan_endpoint::INF, "", scan_endpoint::INF, 0, false, with_nv);
        Op tail = mkscan(ifull.pal.at("in2"), scan_endpoint::INCLUSIVE, "", scan_endpoint::INF, 0, false, with_nv);
        add(out, fam, ifull, {{tail}, {mk(with_nv ? UPUT : PUT, ifull.pal.at("new"), 2)}}, oracles, true, 2, 2);
        add(out, fam, ifull, {{full}, {mk(with_nv ? UPUT : PUT, ifull.pal.at("new"), 2)}}, oracles, false, 2, 2);
        add(out, fam, ifull, {{tail}, {mk(with_nv ? UPUT : PUT, ifull.pal.at("new2"), 2)}}, oracles, false, 2, 2);
    }
    for (auto& sn : use) {
        const ykc::Shape* sh = ykc::find_shape(shapes, sn);
        auto init = initial_keys(*sh);
        std::vector<Op> scans;
        scans.push_back(mkscan("", scan_endpoint::INF, "", scan_endpoint::INF, 0, false, with_nv));
        if (!init.empty()) {
            // bounded: from the second key to the last but one (inclusive / exclusive mix)
            std::vector<std::string> ks(init.begin(), init.end());
            const std::string& lo = ks.size() > 2 ? ks[1] : ks.front();
            const std::string& hi = ks.size() > 2 ? ks[ks.size() - 2] : ks.back();
            if (lo < hi) scans.push_back(mkscan(lo, scan_endpoint::INCLUSIVE, hi, scan_endpoint::EXCLUSIVE, 0, false, with_nv));
        }
        scans.push_back(mkscan("", scan_endpoint::INF, "", scan_endpoint::INF, 2, false, with_nv));
        if (!with_nv) scans.push_back(mkscan("", scan_endpoint::INF, "", scan_endpoint::INF, 1, true, false));
        auto wops = writer_ops(*sh);
        if (with_nv) {
            // phantom: only inserts of absent keys matter, add keys landing in every node
            wops.clear();
            std::set<std::string> cand;
            for (auto& k : pal_keys(*sh)) {
                if (init.count(k) == 0) cand.insert(k);
            }
            for (auto& k : init) {
                if (k.size() <= 3) cand.insert(k + "5");
            }
            cand.insert("00");
            cand.insert("zzz");
            std::size_t n = 0;
            for (auto& k : cand) {
                if (init.count(k) != 0) continue;
                if (cand.size() > 8 && (n++ % (cand.size() / 8 + 1)) != 0 && sh->pal.count("new") != 0 && k != sh->pal.at("new")) continue;
                wops.push_back(mk(UPUT, k, 2));
            }
        }
        for (std::size_t si = 0; si < scans.size(); ++si) {
            for (auto& w : wops) {
                bool quick = quick_shapes.count(sn) != 0 && (si == 0 || si == 2 || si == 3);
                add(out, fam, *sh, {{scans[si]}, {w}}, oracles, quick, 2, 3);
            }
        }
        // a scan of the empty gap between two adjacent stored keys (the node contributes no tuple but must be recorded with the version
        // that was validated) racing the insert of a key into that gap
        if (with_nv && init.size() >= 2) {
            std::vector<std::string> ks(init.begin(), init.end());
            std::set<std::size_t> picks = {0, ks.size() / 2 - (ks.size() > 2 ? 0 : 1), ks.size() - 2};
            for (std::size_t i : picks) {
                if (i + 1 >= ks.size()) continue;
                std::string g = ks[i] + "5";
                if (init.count(g) != 0 || !(g < ks[i + 1])) continue;
                bool q = quick_shapes.count(sn) != 0 && i != ks.size() - 2;
                add(out, fam, *sh, {{mkscan(ks[i], scan_endpoint::EXCLUSIVE, ks[i + 1], scan_endpoint::EXCLUSIVE, 0, false, true)}, {mk(UPUT, g, 2)}}, oracles, q, 2, 3);
            }
        }
        // a narrow scan whose in-range keys are all removed while it runs, followed by an insert of an out-of-range key into the same
        // node (which forces the scan to re-read the node): the node must still be in the version set afterwards, because a later
        // insert into the (now empty) covered range lands in it (probed at the end of every execution)
        if (with_nv && init.size() >= 3) {
            std::vector<std::string> ks(init.begin(), init.end());
            std::string below = ks[0] + "5";
            if (init.count(below) == 0 && below < ks[1]) {
                bool q = quick_shapes.count(sn) != 0;
                add(out, fam, *sh, {{mkscan(ks[1], scan_endpoint::INCLUSIVE, ks[1], scan_endpoint::INCLUSIVE, 0, false, true)}, {mk(REMOVE, ks[1]), mk(PUT, below, 2)}}, oracles, q, 2, 3);
                add(out, fam, *sh, {{mkscan(ks[1], scan_endpoint::INCLUSIVE, ks[2], scan_endpoint::INCLUSIVE, 0, false, true)}, {mk(REMOVE, ks[1]), mk(REMOVE, ks[2]), mk(PUT, below, 2)}}, oracles, q && sn != "I2_8_15" && sn != "B15", 2, 2);
                add(out, fam, *sh, {{mkscan(ks[1], scan_endpoint::INCLUSIVE, "", scan_endpoint::INF, 0, false, true)}, {mk(REMOVE, ks[1]), mk(PUT, below, 2)}}, oracles, false, 2, 2);
            }
        }
        // slot reuse under a scan: the writer removes a key and inserts another one (or the same) into the freed slot
        if (!with_nv && sh->pal.count("in") != 0) {
            std::vector<std::string> targets = {sh->pal.at("in")};
            if (sh->pal.count("inL") != 0) targets.push_back(sh->pal.at("inL"));
            for (auto& k : targets) {
                for (const char* nk : {"new", "new2", "newL"}) {
                    if (sh->pal.count(nk) == 0) continue;
                    for (std::size_t si : {std::size_t(0), std::size_t(2)}) {
                        if (si >= scans.size()) continue;
                        add(out, fam, *sh, {{scans[si]}, {mk(REMOVE, k), mk(PUT, sh->pal.at(nk), 2)}}, oracles, quick_shapes.count(sn) != 0 && (si == 0 || sn == "B3" || sn == "B15"), 2, 2);
                    }
                }
                add(out, fam, *sh, {{scans[0]}, {mk(REMOVE, k), mk(PUT, k, 2)}}, oracles, quick_shapes.count(sn) != 0, 2, 2);
            }
        }
        // the only key of a node is removed (the node goes away, its range falls to a neighbour) and put back while the scan is on its
        // way from that node to the next one: the key must not be delivered twice
        if (!with_nv && sh->pal.count("only") != 0) {
            const std::string& k = sh->pal.at("only");
            add(out, fam, *sh, {{scans[0]}, {mk(REMOVE, k), mk(PUT, k, 2)}}, oracles, sn != "I3_1_1_1", 2, 3);
            add(out, fam, *sh, {{scans[0]}, {mk(REMOVE, k)}, {mk(PUT, k, 2)}}, oracles, false, 2, 2);
        }
        // two writers / two writes, full scan only
        for (std::size_t a = 0; a < wops.size(); ++a) {
            for (std::size_t b = a + 1; b < wops.size(); ++b) {
                if (wops[a].key == wops[b].key && wops[a].kind == wops[b].kind) continue;
                add(out, fam, *sh, {{scans[0]}, {wops[a], wops[b]}}, oracles, false, 2, 2);
                add(out, fam, *sh, {{scans[0]}, {wops[a]}, {wops[b]}}, oracles, false, 2, 2);
            }
        }
    }
}

// C15: a reader concurrent with an overwrite sees the complete old or the complete new value (lengths differ by generation)
static void family_overwrite(std::vector<hm::Scenario>& out, unsigned oracles) {
    auto shapes = ykc::all_shapes();
    for (const char* sn : {"B3", "B15", "I2_8_8", "L1one", "L1_3", "L2"}) {
        const ykc::Shape* sh = ykc::find_shape(shapes, sn);
        std::vector<std::string> keys = {sh->pal.at("in")};
        if (sh->pal.count("inL") != 0) keys.push_back(sh->pal.at("inL"));
        if (sh->pal.count("inLL") != 0) keys.push_back(sh->pal.at("inLL"));
        for (auto& k : keys) {
            Op full = mkscan("", scan_endpoint::INF, "", scan_endpoint::INF, 0, false, false);
            Op cur = full;
            cur.kind = ISCAN;
            add(out, "overwrite", *sh, {{mk(GET, k)}, {mk(PUT, k, 2)}}, oracles, true, 2, 3);
            add(out, "overwrite", *sh, {{full}, {mk(PUT, k, 2)}}, oracles, true, 2, 3);
            add(out, "overwrite", *sh, {{cur}, {mk(PUT, k, 2)}}, oracles, true, 2, 3);
            // overwrite with a value of exactly the stored length (the case in which re-using the stored buffer would be possible)
            add(out, "overwrite", *sh, {{mk(GET, k)}, {mk(PUT, k, 10)}}, oracles, true, 2, 3);
            add(out, "overwrite", *sh, {{full}, {mk(PUT, k, 10)}}, oracles, true, 2, 3);
            add(out, "overwrite", *sh, {{cur}, {mk(PUT, k, 10)}}, oracles, true, 2, 3);
            add(out, "overwrite", *sh, {{mk(GET, k), mk(GET, k)}, {mk(PUT, k, 10), mk(PUT, k, 11)}}, oracles, false, 2, 2);
            add(out, "overwrite", *sh, {{mk(GET, k), mk(GET, k)}, {mk(PUT, k, 2), mk(PUT, k, 3)}}, oracles, false, 2, 2);
            add(out, "overwrite", *sh, {{mk(GET, k)}, {mk(PUT, k, 2)}, {mk(PUT, k, 3)}}, oracles, false, 2, 2);
        }
    }
}

// cursor API under concurrent writers (C10, second sentence)
static void family_iscanc(std::vector<hm::Scenario>& out, unsigned oracles) {
    auto shapes = ykc::all_shapes();
    const std::vector<std::string> use = {"B3", "B15", "I3_8_1_8", "I2_8_15", "L1one", "L1_3", "L1full", "L1I2_1_8", "L2", "I2_1_8", "I2_1_1", "I3_1_1_1", "B15Lhi", "B15Llo", "B15L15"};
    const std::set<std::string> quick_shapes = {"B15", "I3_8_1_8", "L1one", "L1full", "L1I2_1_8", "L1_3"};
    for (auto& sn : use) {
        const ykc::Shape* sh = ykc::find_shape(shapes, sn);
        auto wops = writer_ops(*sh);
        std::vector<Op> cursors;
        for (int r2l = 0; r2l < 2; ++r2l) {
            for (int early = 0; early < 2; ++early) {
                Op c = mkscan("", scan_endpoint::INF, "", scan_endpoint::INF, 0, r2l != 0, true);
                c.kind = ISCAN;
                c.early = early != 0;
                cursors.push_back(c);
            }
        }
        for (std::size_t ci = 0; ci < cursors.size(); ++ci) {
            for (auto& w : wops) {
                bool quick = quick_shapes.count(sn) != 0 && ci == 0;
                add(out, "iscanc", *sh, {{cursors[ci]}, {w}}, oracles, quick, 2, 3);
            }
        }
        for (std::size_t a = 0; a < wops.size(); ++a) {
            for (std::size_t b = a + 1; b < wops.size(); ++b) {
                if (wops[a].key == wops[b].key) continue;
                add(out, "iscanc", *sh, {{cursors[0]}, {wops[a], wops[b]}}, oracles, false, 2, 2);
            }
        }
        if (sn == "B15L15") {
            // both roots above / around the cursor are replaced while it stands inside layer 1: the layer root splits and the root of
            // the whole tree splits (the cursor has to re-resolve its saved layer roots from the top)
            for (std::size_t ci = 0; ci < cursors.size(); ++ci) {
                bool q = ci == 0 || ci == 2; // quick: one preemption (the writer runs both inserts inside one pause of the cursor)
                add(out, "iscanc", *sh, {{cursors[ci]}, {mk(PUT, sh->pal.at("newL"), 2), mk(PUT, sh->pal.at("new"), 2)}}, oracles, q, 1, 2);
                add(out, "iscanc", *sh, {{cursors[ci]}, {mk(PUT, sh->pal.at("new"), 2), mk(PUT, sh->pal.at("newL"), 2)}}, oracles, q, 1, 2);
                add(out, "iscanc", *sh, {{cursors[ci]}, {mk(PUT, sh->pal.at("newL"), 2)}, {mk(PUT, sh->pal.at("new"), 2)}}, oracles, false, 2, 2);
            }
        }
        if (sn == "I2_1_1" || sn == "I3_1_1_1") {
            // two structural writers next to a cursor: sibling single-key nodes emptied together, one of them revived (the state in
            // which a leftmost live border once kept a prev_ link to its retired sibling and backward cursors spun forever)
            for (std::size_t ci = 0; ci < cursors.size(); ci += 1) {
                bool q = sn == "I2_1_1" && ci == 2; // backward cursor, early_abort off
                add(out, "iscanc", *sh, {{cursors[ci]}, {mk(REMOVE, "08")}, {mk(REMOVE, "09"), mk(PUT, "09", 2)}}, oracles, q, 2, 2);
                add(out, "iscanc", *sh, {{cursors[ci]}, {mk(REMOVE, "08"), mk(PUT, "08", 2)}, {mk(REMOVE, "09")}}, oracles, false, 2, 2);
            }
        }
        if (sh->pal.count("in") != 0 && sh->pal.count("new") != 0) {
            // remove a key the cursor may already have delivered + insert a new one into the same node (rank bookkeeping of the cursor)
            bool flat = sn[0] != 'L';
            for (std::size_t ci = 0; ci < 2 * 2; ci += 2) {
                add(out, "iscanc", *sh, {{cursors[ci]}, {mk(REMOVE, sh->pal.at("in")), mk(PUT, sh->pal.at("new"), 2)}}, oracles, flat, 2, 2);
                if (sh->pal.count("first") != 0) add(out, "iscanc", *sh, {{cursors[ci]}, {mk(REMOVE, sh->pal.at("first")), mk(PUT, sh->pal.at("new"), 2)}}, oracles, flat, 2, 2);
            }
        }
    }
}

// structural writers only: splits, node removal, collapse, layer root replacement racing each other
static void family_struct(std::vector<hm::Scenario>& out, unsigned oracles, const char* fam, bool with_reader) {
    auto shapes = ykc::all_shapes();
    shapes.push_back(ykc::shape_ifull());
    struct Pick { const char* shape; std::vector<std::vector<Op>> progs; bool quick; };
    std::vector<Pick> picks;
    auto P = [&](const char* s, std::vector<std::vector<Op>> p, bool q) { picks.push_back({s, std::move(p), q}); };
    // I3_8_1_8: remove the only key of the middle node (unlink: node -> prev -> parent) vs split of prev / of next
    P("I3_8_1_8", {{mk(REMOVE, "09")}, {mk(PUT, "085", 2)}}, true);
    P("I3_8_1_8", {{mk(REMOVE, "09")}, {mk(PUT, "10", 2)}}, true);
    P("I3_8_1_8", {{mk(REMOVE, "09")}, {mk(REMOVE, "08")}}, true);
    P("I3_8_1_8", {{mk(REMOVE, "09")}, {mk(REMOVE, "17")}}, true);
    P("I3_8_1_8", {{mk(REMOVE, "09"), mk(PUT, "09", 2)}, {mk(PUT, "095", 2)}}, false);
    P("I3_8_1_8", {{mk(REMOVE, "09")}, {mk(PUT, "085", 2)}, {mk(REMOVE, "17")}}, false);
    // 8 | 15 | 1 | 8: the node that is unlinked has a FULL previous sibling that splits at the same time, or that is emptied
    P("I4_8_15_1_8", {{mk(REMOVE, "17")}, {mk(PUT, "098", 2)}}, true);
    P("I4_8_15_1_8", {{mk(REMOVE, "17")}, {mk(PUT, "175", 2)}}, true);
    P("I4_8_15_1_8", {{mk(REMOVE, "17")}, {mk(REMOVE, "25")}}, false);
    P("I4_8_15_1_8", {{mk(REMOVE, "17")}, {mk(PUT, "098", 2)}, {mk(REMOVE, "32")}}, false);
    // I2_1_8 / I2_8_1: removing the single key collapses the interior root (promotion) while the sibling changes
    P("I2_1_8", {{mk(REMOVE, "08")}, {mk(PUT, "085", 2)}}, true);
    P("I2_1_8", {{mk(REMOVE, "08")}, {mk(REMOVE, "09")}}, true);
    P("I2_1_8", {{mk(REMOVE, "08")}, {mk(PUT, "07", 2)}}, true);
    P("I2_8_1", {{mk(REMOVE, "09")}, {mk(PUT, "10", 2)}}, true);
    P("I2_8_1", {{mk(REMOVE, "09")}, {mk(PUT, "085", 2)}}, true);
    P("I2_8_1", {{mk(REMOVE, "09"), mk(PUT, "09", 2)}, {mk(REMOVE, "08"), mk(PUT, "095", 2)}}, false);
    // 1 | 1 and 1 | 1 | 1: sibling borders emptied at the same time (unlink of one while the other is unlinked / promoted to
    // root / left behind as the empty root), then revived by an insert
    P("I2_1_1", {{mk(REMOVE, "08")}, {mk(REMOVE, "09")}}, true);
    P("I2_1_1", {{mk(REMOVE, "08")}, {mk(REMOVE, "09"), mk(PUT, "09", 2)}}, true);
    P("I2_1_1", {{mk(REMOVE, "08"), mk(PUT, "08", 2)}, {mk(REMOVE, "09")}}, true);
    P("I2_1_1", {{mk(REMOVE, "08"), mk(PUT, "10", 2)}, {mk(REMOVE, "09"), mk(PUT, "07", 2)}}, false);
    P("I3_1_1_1", {{mk(REMOVE, "08")}, {mk(REMOVE, "09")}}, true);
    P("I3_1_1_1", {{mk(REMOVE, "09")}, {mk(REMOVE, "17")}}, true);
    P("I3_1_1_1", {{mk(REMOVE, "08")}, {mk(REMOVE, "17")}}, true);
    P("I3_1_1_1", {{mk(REMOVE, "08")}, {mk(REMOVE, "09")}, {mk(REMOVE, "17")}}, true);
    P("I3_1_1_1", {{mk(REMOVE, "08")}, {mk(REMOVE, "09")}, {mk(REMOVE, "17"), mk(PUT, "17", 2)}}, false);
    P("L1I2_1_1", {{mk(REMOVE, ykc::P8() + "08")}, {mk(REMOVE, ykc::P8() + "09")}}, true);
    P("L1I2_1_1", {{mk(REMOVE, ykc::P8() + "08")}, {mk(REMOVE, ykc::P8() + "09"), mk(PUT, ykc::P8() + "09", 2)}}, true);
    P("L1I2_1_1", {{mk(REMOVE, ykc::P8() + "08"), mk(PUT, ykc::P8() + "08", 2)}, {mk(REMOVE, ykc::P8() + "09")}}, false);
    // I2_8_15: split of the right node vs operations on the left node
    P("I2_8_15", {{mk(PUT, "24", 2)}, {mk(PUT, "155", 2)}}, true);
    P("I2_8_15", {{mk(PUT, "24", 2)}, {mk(REMOVE, "09")}}, true);
    P("I2_8_15", {{mk(PUT, "24", 2)}, {mk(PUT, "085", 2)}}, false);
    // B15: two inserts that both want to split the root border
    P("B15", {{mk(PUT, "16", 1)}, {mk(PUT, "075", 2)}}, true);
    P("B15", {{mk(PUT, "16", 1)}, {mk(PUT, "00", 2)}}, true);
    P("B15", {{mk(PUT, "16", 1)}, {mk(REMOVE, "15")}}, true);
    // layer root replacement / collapse inside the parent border
    P("L1full", {{mk(PUT, ykc::P8() + "16", 1)}, {mk(PUT, ykc::P8() + "075", 2)}}, true);
    P("L1full", {{mk(PUT, ykc::P8() + "16", 1)}, {mk(PUT, "20", 2)}}, true);
    P("L1full", {{mk(PUT, ykc::P8() + "16", 1)}, {mk(REMOVE, "10")}}, true);
    P("L1I2_1_8", {{mk(REMOVE, ykc::P8() + "08")}, {mk(PUT, ykc::P8() + "085", 2)}}, true);
    P("L1I2_1_8", {{mk(REMOVE, ykc::P8() + "08")}, {mk(REMOVE, ykc::P8() + "09")}}, true);
    P("L1I2_1_8", {{mk(REMOVE, ykc::P8() + "08")}, {mk(PUT, "20", 2)}}, true);
    P("L1one", {{mk(REMOVE, ykc::P8() + "a")}, {mk(PUT, ykc::P8() + "b", 2)}}, true);
    P("L1one", {{mk(REMOVE, ykc::P8() + "a")}, {mk(PUT, ykc::P8() + "a", 2)}}, true);
    P("L1one", {{mk(REMOVE, ykc::P8() + "a")}, {mk(REMOVE, "10")}}, true);
    // two inserts that both have to create the same next layer (one or two levels deep), also on a tree without root
    P("B3", {{mk(PUT, ykc::P8() + "a", 1)}, {mk(PUT, ykc::P8() + "b", 2)}}, true);
    P("B3", {{mk(PUT, ykc::P8() + ykc::P8() + "x", 1)}, {mk(PUT, ykc::P8() + ykc::P8() + "y", 2)}}, true);
    P("B3", {{mk(PUT, ykc::P8() + ykc::P8() + "x", 1)}, {mk(PUT, ykc::P8() + "b", 2)}}, true);
    P("NOROOT", {{mk(PUT, ykc::P8() + "a", 1)}, {mk(PUT, ykc::P8() + "b", 2)}}, true);
    P("EMPTYROOT", {{mk(PUT, ykc::P8() + ykc::P8() + "x", 1)}, {mk(PUT, ykc::P8() + "b", 2)}}, true);
    P("B15", {{mk(PUT, ykc::P8() + "a", 1)}, {mk(PUT, ykc::P8() + "b", 2)}}, true);
    P("L1one", {{mk(REMOVE, ykc::P8() + "a")}, {mk(PUT, ykc::P8() + ykc::P8() + "x", 2)}}, true);
    // parent border of a layer splits (re-parenting the layer root) while the layer is emptied / split / extended
    for (const char* shn : {"B15Lhi", "B15Llo"}) {
        std::string pfx = std::string(shn) == "B15Lhi" ? ykc::P8() : std::string("!!!!!!!!");
        P(shn, {{mk(REMOVE, pfx + "a")}, {mk(PUT, "075", 2)}}, true);
        P(shn, {{mk(PUT, pfx + "b", 1)}, {mk(PUT, "075", 2)}}, true);
        P(shn, {{mk(REMOVE, pfx + "a"), mk(PUT, pfx + "a", 2)}, {mk(PUT, "075", 2)}}, false);
        P(shn, {{mk(REMOVE, pfx + "a")}, {mk(PUT, "075", 2)}, {mk(PUT, pfx + "b", 2)}}, false);
    }
    // root emptied by two removers, revived by a third operation
    P("B2", {{mk(REMOVE, "10")}, {mk(REMOVE, "20")}}, true);
    P("B2", {{mk(REMOVE, "10")}, {mk(REMOVE, "20"), mk(PUT, "15", 2)}}, true);
    P("B2", {{mk(REMOVE, "10")}, {mk(REMOVE, "20")}, {mk(PUT, "15", 2)}}, true);
    P("B2", {{mk(REMOVE, "10"), mk(PUT, ykc::P8() + "a", 2)}, {mk(REMOVE, "20")}}, false);
    // three layers: the innermost layer is emptied by two removers (chain: layer-2 root border -> link in layer 1 -> ...)
    P("L2", {{mk(REMOVE, ykc::P8() + ykc::P8() + "x")}, {mk(REMOVE, ykc::P8() + ykc::P8() + "y")}}, true);
    P("L2", {{mk(REMOVE, ykc::P8() + ykc::P8() + "x"), mk(REMOVE, ykc::P8() + ykc::P8() + "y")}, {mk(REMOVE, ykc::P8() + "a")}}, true);
    P("L2", {{mk(REMOVE, ykc::P8() + ykc::P8() + "x"), mk(REMOVE, ykc::P8() + ykc::P8() + "y")}, {mk(PUT, ykc::P8() + ykc::P8() + "xx", 2)}}, true);
    P("L2", {{mk(REMOVE, ykc::P8() + ykc::P8() + "x"), mk(REMOVE, ykc::P8() + ykc::P8() + "y")}, {mk(REMOVE, ykc::P8() + "a")}, {mk(REMOVE, "10")}}, false);
    P("L1_3", {{mk(REMOVE, ykc::P8() + "a"), mk(REMOVE, ykc::P8() + "b")}, {mk(REMOVE, ykc::P8() + "c")}}, true);
    P("L1_3", {{mk(REMOVE, ykc::P8() + "a"), mk(REMOVE, ykc::P8() + "b")}, {mk(REMOVE, ykc::P8() + "c"), mk(PUT, ykc::P8() + "c", 2)}}, false);
    // root emptied and revived
    P("B1", {{mk(REMOVE, "10")}, {mk(PUT, "20", 2)}}, true);
    P("B1", {{mk(REMOVE, "10")}, {mk(PUT, "10", 2)}}, true);
    P("EMPTYROOT", {{mk(PUT, "10", 1)}, {mk(PUT, "20", 2)}}, true);
    P("NOROOT", {{mk(PUT, "10", 1)}, {mk(PUT, "20", 2)}}, true);
    P("NOROOT", {{mk(PUT, "10", 1)}, {mk(PUT, "10", 2)}}, true);
    P("NOROOT", {{mk(PUT, "10", 1)}, {mk(PUT, "20", 2)}, {mk(PUT, ykc::P8() + "a", 2)}}, false);
    // cascading: interior root with 16 children, rightmost border full
    P("IFULL", {{mk(PUT, "136", 1)}, {mk(PUT, "0645", 2)}}, false);
    P("IFULL", {{mk(PUT, "136", 1)}, {mk(REMOVE, "064")}}, false);
    // one thread empties a whole border node (8 or 7 removes) while another splits its neighbourhood: the only way the freshly
    // created interior (layer) root drops to one child and is collapsed right after the split
    auto bulk = [&](const std::string& prefix, int from, int to) {
        std::vector<Op> v;
        for (int i = from; i <= to; ++i) v.push_back(mk(REMOVE, prefix + ykc::k2(i)));
        return v;
    };
    P("L1full", {{mk(PUT, ykc::P8() + "16", 1)}, bulk(ykc::P8(), 1, 8)}, true);
    P("L1full", {{mk(PUT, ykc::P8() + "16", 1)}, bulk(ykc::P8(), 9, 15)}, false);
    P("L1full", {{mk(PUT, ykc::P8() + "075", 1)}, bulk(ykc::P8(), 9, 15)}, false);
    P("B15", {{mk(PUT, "16", 1)}, bulk("", 1, 8)}, true);
    P("B15", {{mk(PUT, "16", 1)}, bulk("", 9, 15)}, false);
    P("I2_8_15", {{mk(PUT, "24", 1)}, bulk("", 9, 16)}, false);
    P("I2_8_15", {{mk(PUT, "24", 1)}, bulk("", 1, 8)}, false);
    for (auto& p : picks) {
        const ykc::Shape* sh = ykc::find_shape(shapes, p.shape);
        if (sh == nullptr) continue;
        auto progs = p.progs;
        if (with_reader) {
            // one optimistic reader spinning on dirty versions: a get of a key in the touched node and a full scan
            std::string rk = progs[0][0].key;
            auto pg = progs;
            pg.push_back({mk(GET, rk)});
            // three threads at bound 2 cost 1-2 M schedules when an operation splits a node: keep those for the thorough tier
            bool splits = false;
            for (auto& pr : progs) {
                for (auto& o : pr) {
                    if (o.kind == PUT && (sh->name == "B15" || sh->name == "B15Lhi" || sh->name == "B15Llo" || sh->name == "L1full" || sh->name == "I2_8_15" || sh->name == "IFULL" || sh->name == "I4_8_15_1_8")) splits = true;
                }
            }
            bool few_ops = progs.size() == 2 && progs[0].size() == 1 && progs[1].size() == 1;
            add(out, fam, *sh, pg, oracles, p.quick && few_ops && (!splits || sh->name == "I4_8_15_1_8"), 2, 2);
            auto ps = progs;
            ps.push_back({mkscan("", scan_endpoint::INF, "", scan_endpoint::INF, 0, false, false)});
            add(out, fam, *sh, ps, oracles, false, 2, 2);
        }
        add(out, fam, *sh, progs, oracles, p.quick, 2, 3);
    }
}

// every single operation alone: a lone thread must never wait
static void family_alone(std::vector<hm::Scenario>& out, unsigned oracles, const char* fam) {
    auto shapes = ykc::all_shapes();
    for (auto& sh : shapes) {
        for (auto& k : pal_keys(sh)) {
            for (OpKind kd : {GET, PUT, UPUT, REMOVE}) add(out, fam, sh, {{mk(kd, k)}}, oracles, true, 0, 0);
        }
        add(out, fam, sh, {{mkscan("", scan_endpoint::INF, "", scan_endpoint::INF, 0, false, true)}}, oracles, true, 0, 0);
    }
}

int main(int argc, char** argv) {
    hm::Args a = hm::parse(argc, argv);
    std::string family = a.extra.empty() ? "lin" : a.extra[0];
    unsigned oracles = oracle_mask(a.oracle);
    std::vector<hm::Scenario> sc;
    if (family == "lin") family_lin(sc, oracles);
    if (family == "scanc") family_scanc(sc, oracles, false, "scanc");
    if (family == "phantom") family_scanc(sc, oracles, true, "phantom");
    if (family == "struct") family_struct(sc, oracles, "struct", false);
    if (family == "ddl") ddl::scenarios(sc);
    if (family == "overwrite") family_overwrite(sc, oracles);
    if (family == "iscanc") family_iscanc(sc, oracles);
    if (family == "locks") {
        family_struct(sc, oracles, "locks", true);
        family_alone(sc, oracles, "alone");
    }
    return hm::run_main("h_tree", sc, a);
}
