// E1 tree harness binary: scenario families lin (C01/C15), scanc (C04), phantom (C06), struct (C08), locks (C09).
#include "tree_harness.h"

using namespace th;

static std::string kind_name(OpKind k) {
    switch (k) {
        case GET: return "get";
        case PUT: return "put";
        case UPUT: return "uput";
        case REMOVE: return "remove";
        case SCAN: return "scan";
    }
    return "?";
}

static std::string sigclass_of(const std::vector<std::vector<Op>>& progs) {
    // kinds in canonical order + whether all point ops hit one key
    std::vector<std::string> ks;
    std::set<std::string> keys;
    for (auto& p : progs) {
        for (auto& o : p) {
            ks.push_back(kind_name(o.kind));
            if (o.kind != SCAN) keys.insert(o.key);
        }
    }
    std::sort(ks.begin(), ks.end());
    std::string s;
    for (auto& k : ks) s += (s.empty() ? "" : "+") + k;
    s += keys.size() <= 1 ? ":samekey" : ":keys" + std::to_string(keys.size());
    return s;
}

static std::string prog_name(const std::vector<std::vector<Op>>& progs) {
    std::string s;
    for (std::size_t i = 0; i < progs.size(); ++i) {
        if (i != 0) s += "|";
        for (std::size_t k = 0; k < progs[i].size(); ++k) s += (k != 0 ? ";" : "") + op_name(progs[i][k]);
    }
    return s;
}

static void add(std::vector<hm::Scenario>& out, const std::string& family, const ykc::Shape& sh,
                const std::vector<std::vector<Op>>& progs, unsigned oracles, bool quick, int bq, int bt) {
    hm::Scenario sc;
    sc.name = family + "/" + sh.name + "/" + prog_name(progs);
    sc.sigclass = family + ":" + sigclass_of(progs);
    sc.quick = quick;
    sc.bound_quick = bq;
    sc.bound_thorough = bt;
    // tree harnesses: session/epoch/gc accesses are thread private here (no background threads): no choice points
    sc.cls_mask = (1u << ykmc::C_TREE) | (1u << ykmc::C_HARNESS);
    ykc::Shape shc = sh;
    std::string nm = sc.name;
    sc.make = [shc, progs, oracles, nm]() { return make_tree(shc, progs, oracles, nm); };
    out.push_back(sc);
}

static std::vector<std::string> pal_keys(const ykc::Shape& sh) {
    std::vector<std::string> v;
    for (auto& kv : sh.pal) {
        if (kv.first == "pfx") continue;
        if (std::find(v.begin(), v.end(), kv.second) == v.end()) v.push_back(kv.second);
    }
    std::sort(v.begin(), v.end());
    return v;
}

static void family_lin(std::vector<hm::Scenario>& out, unsigned oracles) {
    auto shapes = ykc::all_shapes();
    shapes.push_back(ykc::shape_ifull());
    const std::set<std::string> cross_quick = {"B15", "I3_8_1_8", "L1full", "L1I2_1_8", "I2_1_8", "NOROOT", "EMPTYROOT", "L1one"};
    for (auto& sh : shapes) {
        auto keys = pal_keys(sh);
        std::vector<Op> alphabet;
        for (auto& k : keys) {
            for (OpKind kd : {GET, PUT, UPUT, REMOVE}) {
                Op o;
                o.kind = kd;
                o.key = k;
                alphabet.push_back(o);
            }
        }
        for (std::size_t a = 0; a < alphabet.size(); ++a) {
            for (std::size_t b = a; b < alphabet.size(); ++b) {
                Op x = alphabet[a], y = alphabet[b];
                if (x.kind == GET && y.kind == GET) continue;
                bool same = x.key == y.key;
                x.gen = 1;
                y.gen = 2;
                bool present_x = false, present_y = false;
                {
                    std::set<std::string> init(sh.inserts.begin(), sh.inserts.end());
                    for (auto& r : sh.removes) init.erase(r);
                    present_x = init.count(x.key) != 0;
                    present_y = init.count(y.key) != 0;
                }
                // drop pairs in which neither op can change anything (e.g. remove of absent + get)
                auto writes = [](const Op& o, bool present) {
                    if (o.kind == GET) return false;
                    if (o.kind == UPUT && present) return false;
                    if (o.kind == REMOVE && !present) return false;
                    return true;
                };
                if (!writes(x, present_x) && !writes(y, present_y) && !same) continue;
                bool quick = same || (cross_quick.count(sh.name) != 0 && writes(x, present_x) && writes(y, present_y));
                if (sh.name == "IFULL") quick = false;
                add(out, "lin", sh, {{x}, {y}}, oracles, quick, 2, 3);
            }
        }
    }
    // three threads on one key (B3, L1one) and 2x2 programs
    for (const char* sn : {"B3", "L1one", "I2_1_8"}) {
        const ykc::Shape* sh = ykc::find_shape(shapes, sn);
        std::string k = sh->pal.count("only") != 0 ? sh->pal.at("only") : sh->pal.at("in");
        Op g, p, rm, u;
        g.kind = GET;
        p.kind = PUT;
        p.gen = 1;
        rm.kind = REMOVE;
        u.kind = UPUT;
        u.gen = 2;
        g.key = p.key = rm.key = u.key = k;
        add(out, "lin", *sh, {{g}, {p}, {rm}}, oracles, false, 2, 2);
        add(out, "lin", *sh, {{g}, {u}, {rm}}, oracles, false, 2, 2);
        add(out, "lin", *sh, {{rm, u}, {g, g}}, oracles, false, 2, 2);
        add(out, "lin", *sh, {{rm, p}, {p, g}}, oracles, false, 2, 2);
    }
}

int main(int argc, char** argv) {
    hm::Args a = hm::parse(argc, argv);
    std::string family = a.extra.empty() ? "lin" : a.extra[0];
    unsigned oracles = oracle_mask(a.oracle);
    std::vector<hm::Scenario> sc;
    if (family == "lin") family_lin(sc, oracles);
    return hm::run_main("h_tree", sc, a);
}
