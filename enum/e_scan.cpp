// E3 ykenum: exhaustive enumeration of (tree, l_key, l_end, r_key, r_end, max_size, right_to_left) for scan() (C03)
// and of (tree, range, direction, early_abort) for the cursor API iscan_open/iscan_next (C10, sequential sentence),
// against a sorted-map reference on the real implementation.
#include "../engine/hmain.h"
#include "../engine/ykc.h"

using namespace yakushima;
using ykc::Model;

static const char* kSt = "s";

static const char* ep_name(scan_endpoint e) { return e == scan_endpoint::INF ? "INF" : (e == scan_endpoint::INCLUSIVE ? "INC" : "EXC"); }

static bool in_range(const std::string& k, const std::string& l, scan_endpoint le, const std::string& r, scan_endpoint re) {
    if (le == scan_endpoint::INCLUSIVE && k < l) return false;
    if (le == scan_endpoint::EXCLUSIVE && k <= l) return false;
    if (re == scan_endpoint::INCLUSIVE && k > r) return false;
    if (re == scan_endpoint::EXCLUSIVE && k >= r) return false;
    return true;
}

// the documented set of invalid ranges (kvs.h): returns true if ERR_BAD_USAGE is the documented answer
static bool documented_bad_range(const std::string& l, scan_endpoint le, const std::string& r, scan_endpoint re) {
    bool l_inf = le == scan_endpoint::INF, r_inf = re == scan_endpoint::INF;
    if (!l_inf && !r_inf && r < l) return true;
    if (!l_inf && !r_inf && l == r && (le == scan_endpoint::EXCLUSIVE || re == scan_endpoint::EXCLUSIVE)) return true;
    if (r.empty() && re == scan_endpoint::EXCLUSIVE) return true;
    return false;
}

struct TreeSpec {
    std::string name;
    std::vector<std::string> keys;      // inserted in this order
    std::vector<std::string> removes;
    std::vector<std::string> endpoints;
};

static void add_variants(std::set<std::string>& e, const std::string& k) {
    e.insert(k);
    if (!k.empty()) {
        e.insert(k.substr(0, k.size() - 1));
        std::string a = k;
        a.back() = char(static_cast<unsigned char>(a.back()) + 1);
        e.insert(a);
        std::string b = k;
        b.back() = char(static_cast<unsigned char>(b.back()) - 1);
        e.insert(b);
    }
    e.insert(k + std::string("\0", 1));
    if (k.size() > 8) e.insert(k.substr(0, 8));
    if (k.size() > 16) e.insert(k.substr(0, 16));
}

static std::vector<std::string> universe10() {
    std::string p = "ABCDEFGH";
    return {std::string(""),
            std::string("A"),
            std::string("ABCDEFG"),                   // 7 bytes
            p,                                        // 8 bytes: same slice as the link below
            p + "I",                                  // 9 bytes: layer 1
            p + "IJKLMNOP",                           // 16 bytes: layer 1, 8-byte suffix
            p + "IJKLMNOPQ",                          // 17 bytes: layer 2
            std::string("\xff\xff\xff\xff\xff\xff\xff\xff", 8),
            std::string("A\0B", 3),
            std::string("B")};
}

static std::vector<TreeSpec> make_trees(bool quick) {
    std::vector<TreeSpec> v;
    auto u = universe10();
    std::set<std::string> ends;
    for (auto& k : u) add_variants(ends, k);
    ends.insert(std::string(9, '\xff'));
    for (size_t n : {256u, 257u, 264u, 265u}) ends.insert(std::string("ABCDEFGH") + std::string(n - 8, 'z'));
    std::vector<std::string> endv(ends.begin(), ends.end());
    unsigned total = 1u << u.size();
    for (unsigned m = 0; m < total; ++m) {
        (void) quick; // all 1024 subsets in both tiers (seconds)
        TreeSpec t;
        t.name = "subset" + std::to_string(m);
        for (size_t i = 0; i < u.size(); ++i) {
            if (((m >> i) & 1u) != 0) t.keys.push_back(u[i]);
        }
        t.endpoints = endv;
        v.push_back(t);
    }
    // multi-node seeds
    auto shapes = ykc::all_shapes();
    shapes.push_back(ykc::shape_ifull());
    for (auto& sh : shapes) {
        if (sh.inserts.empty()) continue;
        TreeSpec t;
        t.name = "seed_" + sh.name;
        t.keys = sh.inserts;
        t.removes = sh.removes;
        std::set<std::string> ks(sh.inserts.begin(), sh.inserts.end());
        for (auto& r : sh.removes) ks.erase(r);
        std::vector<std::string> kv(ks.begin(), ks.end());
        std::set<std::string> e;
        std::set<size_t> pick = {0, 1, 7, 8, 9, 15, 16, kv.size() / 2, kv.size() - 2, kv.size() - 1};
        for (size_t i : pick) {
            if (i < kv.size()) add_variants(e, kv[i]);
        }
        for (auto& kvp : sh.pal) e.insert(kvp.second);
        e.insert("");
        e.insert(std::string(9, '\xff'));
        t.endpoints.assign(e.begin(), e.end());
        if (quick && t.endpoints.size() > 40) {
            std::vector<std::string> s;
            for (size_t i = 0; i < t.endpoints.size(); i += 2) s.push_back(t.endpoints[i]);
            t.endpoints = s;
        }
        v.push_back(t);
    }
    return v;
}

struct Report {
    std::string part;
    long evaluations = 0, nontrivial = 0, states = 0, transitions = 0;
    bool exhaustive = true;
    std::vector<std::string> samples;
    std::vector<std::pair<std::string, std::string>> viol;
    std::vector<std::string> repro;
    double wall = 0;
};
static void print(const Report& r) {
    printf("{\"engine\":\"ykenum\",\"part\":\"%s\",\"scenario\":\"%s\",\"sigclass\":\"enum\",\"states\":%ld,\"transitions\":%ld,\"evaluations\":%ld,"
           "\"nontrivial\":%ld,\"exhaustive\":%s,\"wall\":%.2f,\"samples\":[",
           hm::jesc(r.part).c_str(), hm::jesc(r.part).c_str(), r.states, r.transitions, r.evaluations, r.nontrivial, r.exhaustive ? "true" : "false", r.wall);
    for (size_t i = 0; i < r.samples.size(); ++i) printf("%s\"%s\"", i != 0 ? "," : "", hm::jesc(r.samples[i]).c_str());
    printf("],\"violations\":[");
    for (size_t i = 0; i < r.viol.size(); ++i) {
        printf("%s{\"symptom\":\"%s\",\"detail\":\"%s\",\"repro\":\"%s\"}", i != 0 ? "," : "", hm::jesc(r.viol[i].first).c_str(),
               hm::jesc(r.viol[i].second).c_str(), hm::jesc(r.repro[i]).c_str());
    }
    printf("]}\n");
    fflush(stdout);
}

static std::string hexs(const std::string& s) {
    static const char* d = "0123456789abcdef";
    std::string o;
    for (unsigned char c : s) {
        o.push_back(d[c >> 4]);
        o.push_back(d[c & 15]);
    }
    return o;
}
static std::string unhex(const std::string& h) {
    std::string o;
    for (size_t i = 0; i + 1 < h.size(); i += 2) o.push_back(char(std::stoi(h.substr(i, 2), nullptr, 16)));
    return o;
}

struct Built {
    tree_instance* ti = nullptr;
    Token tk{};
    Model m;
};
static Built build(const TreeSpec& t) {
    Built b;
    ykc::sequential_teardown_mode();
    ykc::reset_library_statics();
    create_storage(kSt);
    find_storage(kSt, &b.ti);
    enter(b.tk);
    for (auto& k : t.keys) {
        std::string v = ykc::val_of(k);
        ykc::t_put(b.tk, b.ti, k, v);
        b.m[k] = v;
    }
    for (auto& k : t.removes) {
        ykc::t_remove(b.tk, b.ti, k);
        b.m.erase(k);
    }
    return b;
}
static void unbuild(Built& b) {
    leave(b.tk);
    destroy();
    ykc::drain_retired();
}

// returns "" or error
static std::string check_scan(Built& b, const std::string& l, scan_endpoint le, const std::string& r, scan_endpoint re, size_t max, bool r2l,
                              bool by_name) {
    std::vector<ykc::ScanTuple> out;
    ykc::NvVec nv;
    status st = by_name ? scan<char>(std::string_view(kSt), std::string_view(l), le, std::string_view(r), re, out, &nv, max, r2l)
                        : ykc::t_scan(b.ti, l, le, r, re, out, &nv, max, r2l);
    bool bad = documented_bad_range(l, le, r, re) || (r2l && (re != scan_endpoint::INF || max != 1));
    if (bad) {
        if (st != status::ERR_BAD_USAGE) return std::string("invalid arguments accepted: status ") + ykc::st_name(st);
        return "";
    }
    if (st == status::ERR_BAD_USAGE) return "valid range rejected with ERR_BAD_USAGE";
    if (st != status::OK && st != status::OK_ROOT_IS_NULL) return std::string("unexpected status ") + ykc::st_name(st);
    std::vector<std::pair<std::string, std::string>> want;
    for (auto& kv : b.m) {
        if (in_range(kv.first, l, le, r, re)) want.push_back(kv);
    }
    if (r2l) {
        if (!want.empty()) want = {want.back()};
    } else if (max != 0 && want.size() > max) {
        want.resize(max);
    }
    bool same = want.size() == out.size();
    for (size_t i = 0; same && i < out.size(); ++i) {
        if (std::get<0>(out[i]) != want[i].first) same = false;
        else if (std::get<1>(out[i]) == nullptr) same = false;
        else if (std::string(std::get<1>(out[i]), std::get<2>(out[i])) != want[i].second) same = false;
    }
    if (!same) {
        std::string e = "result differs: got [";
        for (auto& t : out) e += ykc::hex(std::get<0>(t)) + " ";
        e += "] want [";
        for (auto& t : want) e += ykc::hex(t.first) + " ";
        return e + "]";
    }
    if (st == status::OK && nv.empty()) return "NVSET|empty_set: node version set empty for an existing storage";
    return "";
}

static std::string check_iscan(Built& b, const std::string& l, scan_endpoint le, const std::string& r, scan_endpoint re, bool r2l, bool early,
                               bool by_name) {
    iscan_context* ctx = nullptr;
    void* val = nullptr;
    long ncb = 0;
    auto cb = [&ncb](node_version64*, node_version64_body) {
        ncb++;
        return false;
    };
    status st{};
    bool bad = documented_bad_range(l, le, r, re);
    if (by_name) {
        st = iscan_open(std::string_view(kSt), std::string_view(l), le, std::string_view(r), re, r2l, early, ctx, val, cb);
    } else {
        if (bad) return "";
        std::string ll = l;
        scan_endpoint lle = le;
        if (lle == scan_endpoint::INF) {
            ll = "";
            lle = scan_endpoint::INCLUSIVE;
        }
        st = iscan_open(b.ti, ll, lle, r, re, ctx, val, cb, r2l, early);
    }
    if (bad) {
        std::string e;
        if (st != status::ERR_BAD_USAGE) e = std::string("invalid range accepted by iscan_open: ") + ykc::st_name(st);
        if (ctx != nullptr) iscan_close(ctx);
        return e;
    }
    if (st == status::ERR_BAD_USAGE) return "valid range rejected by iscan_open";
    std::vector<std::pair<std::string, std::string>> want;
    for (auto& kv : b.m) {
        if (in_range(kv.first, l, le, r, re)) want.push_back(kv);
    }
    if (r2l) std::reverse(want.begin(), want.end());
    std::vector<std::pair<std::string, std::string>> got;
    size_t guard = 0;
    while (st == status::OK && guard++ < want.size() + 4) {
        std::string k = ctx->full_key();
        auto it = b.m.find(k);
        std::string bytes = "<null>";
        if (val != nullptr) bytes.assign(static_cast<const char*>(val), it != b.m.end() ? it->second.size() : 1);
        got.emplace_back(k, bytes);
        st = iscan_next(ctx, val, cb);
    }
    std::string e;
    if (st != status::OK_SCAN_END) e = std::string("iteration ended with ") + ykc::st_name(st);
    if (ctx != nullptr) iscan_close(ctx);
    if (e.empty() && got != want) {
        e = "cursor result differs: got [";
        for (auto& t : got) e += ykc::hex(t.first) + " ";
        e += "] want [";
        for (auto& t : want) e += ykc::hex(t.first) + " ";
        e += "]";
    }
    if (e.empty() && b.ti->root_ != nullptr && ncb == 0) {
        // an INF left end is the same as ("", INCLUSIVE)
        std::string nl = le == scan_endpoint::INF ? std::string() : l;
        bool l_incl = le != scan_endpoint::EXCLUSIVE;
        bool point_hit = got.size() == 1 && nl == r && l_incl && re == scan_endpoint::INCLUSIVE && got[0].first == nl;
        e = point_hit ? "NVSET|empty_set_point_hit: callback never invoked for a point range that hits an existing key"
                      : "NVSET|empty_set: callback never invoked, empty node version set";
    }
    return e;
}

static std::string range_str(const std::string& tree, const std::string& l, scan_endpoint le, const std::string& r, scan_endpoint re, size_t max,
                             bool r2l, const char* api) {
    return std::string(api) + ";" + tree + ";" + hexs(l) + ";" + ep_name(le) + ";" + hexs(r) + ";" + ep_name(re) + ";" + std::to_string(max) + ";" + (r2l ? "1" : "0");
}

static scan_endpoint ep_parse(const std::string& s) { return s == "INF" ? scan_endpoint::INF : (s == "INC" ? scan_endpoint::INCLUSIVE : scan_endpoint::EXCLUSIVE); }

// ------------------------------------------------------------------------------------------------------------------
// cursor paused between two calls, one complete writer operation in the gap (C10: "every point at which the caller stops
// or pauses"; early_abort: a modification of the node under the cursor must be reported)
// ------------------------------------------------------------------------------------------------------------------
struct GapOp {
    bool is_put;
    std::string key;
};
static std::string gap_case(const std::string& tree, bool r2l, bool early, int gap, const std::vector<GapOp>& ws) {
    std::string s = "gap;" + tree + ";" + (r2l ? "1" : "0") + ";" + (early ? "1" : "0") + ";" + std::to_string(gap);
    for (auto& w : ws) s += std::string(";") + (w.is_put ? "P" : "R") + ";" + hexs(w.key);
    return s;
}
// returns "" or "symptom|detail"
static std::string check_gap(const TreeSpec& t, bool r2l, bool early, int gap, const std::vector<GapOp>& ws, bool& applied) {
    Built b = build(t);
    applied = false;
    std::string err;
    iscan_context* ctx = nullptr;
    void* val = nullptr;
    std::vector<std::string> produced;
    status st = iscan_open(b.ti, "", scan_endpoint::INCLUSIVE, "", scan_endpoint::INF, ctx, val, dummycallback, r2l, early);
    int steps = 0;
    while (st == status::OK) {
        produced.push_back(ctx->full_key());
        if (steps == gap && !applied) {
            // pause here: remember the border on top of the cursor stack
            border_node* top = ctx->stack_empty() ? nullptr : ctx->stack_top().bn;
            uint64_t v0 = 0, p0 = 0;
            if (top != nullptr) {
                auto body = top->version_.body_.load();
                memcpy(&v0, &body, 8);
                p0 = top->permutation_.body_.load();
            }
            std::string last = produced.back();
            Model before = b.m;
            for (auto& w : ws) {
                if (w.is_put) {
                    std::string v = ykc::val_of(w.key, 2);
                    ykc::t_put(b.tk, b.ti, w.key, v);
                    b.m[w.key] = v;
                } else {
                    ykc::t_remove(b.tk, b.ti, w.key);
                    b.m.erase(w.key);
                }
            }
            applied = true;
            bool top_changed = false;
            if (top != nullptr) {
                auto info = ykalloc::lookup(top);
                auto body = top->version_.body_.load();
                uint64_t v1 = 0;
                memcpy(&v1, &body, 8);
                uint64_t p1 = top->permutation_.body_.load();
                top_changed = v1 != v0 || p1 != p0;
                (void) info;
            }
            st = iscan_next(ctx, val);
            if (early && top_changed) {
                if (st != status::WARN_CONCURRENT_OPERATIONS) {
                    err = std::string("early_abort_ignored|the border node under the cursor was modified in the pause but iscan_next returned ") + ykc::st_name(st);
                }
                break;
            }
            // every key present before and after the write, beyond the last produced key, must still come, in order
            std::vector<std::string> must;
            std::set<std::string> touched;
            for (auto& w : ws) touched.insert(w.key);
            for (auto& kv : before) {
                if (b.m.count(kv.first) == 0 || touched.count(kv.first) != 0) continue;
                if (!r2l && kv.first > last) must.push_back(kv.first);
                if (r2l && kv.first < last) must.push_back(kv.first);
            }
            if (r2l) std::reverse(must.begin(), must.end());
            std::vector<std::string> rest;
            int guard = 0;
            while (st == status::OK && guard++ < 400) {
                rest.push_back(ctx->full_key());
                st = iscan_next(ctx, val);
            }
            if (st == status::WARN_CONCURRENT_OPERATIONS && early) break; // allowed to give up (a node it passes was modified)
            if (st != status::OK_SCAN_END) {
                err = std::string("status|iteration after the pause ended with ") + ykc::st_name(st);
                break;
            }
            // monotone, no repeats of already produced keys
            std::string prev = last;
            for (auto& k : rest) {
                bool ok = r2l ? k < prev : k > prev;
                if (!ok) {
                    err = "order|after the pause the cursor produced " + ykc::hex(k) + " after " + ykc::hex(prev);
                    break;
                }
                prev = k;
            }
            if (err.empty()) {
                size_t pos = 0;
                for (auto& k : must) {
                    while (pos < rest.size() && rest[pos] != k) pos++;
                    if (pos == rest.size()) {
                        err = "lost_key|key " + ykc::hex(k) + " was present during the whole iteration but was not produced after the pause";
                        break;
                    }
                }
            }
            if (err.empty()) {
                for (auto& k : rest) {
                    if (before.count(k) == 0 && b.m.count(k) == 0) {
                        err = "foreign_key|cursor produced " + ykc::hex(k) + " which never existed";
                        break;
                    }
                }
            }
            break;
        }
        steps++;
        st = iscan_next(ctx, val);
    }
    if (ctx != nullptr) iscan_close(ctx);
    unbuild(b);
    return err;
}

static void part_gap(const hm::Args& a, bool quick) {
    auto shapes = ykc::all_shapes();
    const std::vector<std::string> use = {"B3", "B15", "I2_8_8", "I2_1_8", "I2_8_1", "I3_8_1_8", "I2_8_15", "L1one", "L1_3", "L1full", "L1I2_1_8", "L2"};
    int idx = 0;
    for (auto& sn : use) {
        if ((idx++ % a.nshards) != a.shard) continue;
        const ykc::Shape* sh = ykc::find_shape(shapes, sn);
        TreeSpec t;
        t.name = "seed_" + sh->name;
        t.keys = sh->inserts;
        t.removes = sh->removes;
        std::set<std::string> present(sh->inserts.begin(), sh->inserts.end());
        for (auto& r : sh->removes) present.erase(r);
        bool two_ops = !quick || present.size() <= 16;
        std::vector<GapOp> ops;
        std::set<std::string> putkeys;
        for (auto& kv : sh->pal) putkeys.insert(kv.second);
        size_t step = quick ? 3 : 1;
        size_t i = 0;
        for (auto& k : present) {
            if ((i++ % step) == 0) {
                ops.push_back({false, k});
                putkeys.insert(k + "5");
                putkeys.insert(k);
            }
        }
        putkeys.insert("00");
        putkeys.insert("zzzz");
        for (auto& k : putkeys) ops.push_back({true, k});
        Report rp;
        rp.part = "gap/" + t.name;
        hm::crash_part(rp.part, "gap:" + sh->name);
        double s0 = ykmc::mono_now();
        std::map<std::string, int> seen;
        for (int r2l = 0; r2l < 2; ++r2l) {
            for (int early = 0; early < 2; ++early) {
                for (int gap = 0; gap <= int(present.size()); ++gap) {
                    std::vector<std::vector<GapOp>> cases;
                    for (auto& w : ops) cases.push_back({w});
                    // two writer operations in one pause: a removal of a stored key followed or preceded by an insert
                    if (two_ops) {
                        for (auto& w1 : ops) {
                            if (w1.is_put) continue;
                            for (auto& w2 : ops) {
                                if (!w2.is_put || w2.key == w1.key || present.count(w2.key) != 0) continue;
                                cases.push_back({w1, w2});
                                cases.push_back({w2, w1});
                            }
                        }
                    }
                    for (auto& w : cases) {
                        bool applied = false;
                        auto describe = [&]() { return gap_case(t.name, r2l != 0, early != 0, gap, w); };
                        hm::CrashScope crash_scope(describe);
                        std::string e = check_gap(t, r2l != 0, early != 0, gap, w, applied);
                        rp.evaluations++;
                        if (applied) rp.nontrivial++;
                        if (!e.empty()) {
                            std::string sym = "iscan:gap_" + e.substr(0, e.find('|'));
                            if (seen[sym]++ == 0 && rp.viol.size() < 6) {
                                std::string rs = gap_case(t.name, r2l != 0, early != 0, gap, w);
                                rp.viol.emplace_back(sym, e.substr(e.find('|') + 1) + " || case " + rs);
                                rp.repro.push_back(rs);
                            }
                        }
                    }
                }
            }
        }
        rp.states = long(ops.size());
        rp.transitions = rp.evaluations;
        rp.samples.push_back(gap_case(t.name, false, true, 2, {ops[ops.size() / 2]}));
        rp.wall = ykmc::mono_now() - s0;
        // signature class carries the shape (known findings are per shape family)
        printf("{\"engine\":\"ykenum\",\"part\":\"%s\",\"scenario\":\"%s\",\"sigclass\":\"gap:%s\",\"states\":%ld,\"transitions\":%ld,\"evaluations\":%ld,"
               "\"nontrivial\":%ld,\"exhaustive\":true,\"wall\":%.2f,\"samples\":[\"%s\"],\"violations\":[",
               hm::jesc(rp.part).c_str(), hm::jesc(rp.part).c_str(), sh->name.c_str(), rp.states, rp.transitions, rp.evaluations, rp.nontrivial, rp.wall,
               hm::jesc(rp.samples[0]).c_str());
        for (size_t k = 0; k < rp.viol.size(); ++k) {
            printf("%s{\"symptom\":\"%s\",\"detail\":\"%s\",\"repro\":\"%s\"}", k != 0 ? "," : "", hm::jesc(rp.viol[k].first).c_str(),
                   hm::jesc(rp.viol[k].second).c_str(), hm::jesc(rp.repro[k]).c_str());
        }
        printf("]}\n");
        fflush(stdout);
    }
}

int main(int argc, char** argv) {
    hm::Args a = hm::parse(argc, argv);
    hm::install_crash_reporter("ykenum");
    std::string part = a.extra.empty() ? "scan" : a.extra[0]; // scan | iscan
    bool quick = a.tier == "quick";
    if (part == "gap" && a.replay_scenario.empty()) {
        part_gap(a, quick);
        return 0;
    }
    auto trees = make_trees(quick && a.replay_scenario.empty());
    const scan_endpoint eps[3] = {scan_endpoint::INCLUSIVE, scan_endpoint::EXCLUSIVE, scan_endpoint::INF};
    if (!a.replay_scenario.empty()) {
        // api;tree;l;le;r;re;max;r2l
        std::vector<std::string> f;
        std::istringstream in(a.replay_scenario);
        std::string tok;
        while (std::getline(in, tok, ';')) f.push_back(tok);
        if (!f.empty() && f[0] == "gap" && f.size() >= 7) {
            auto shapes = ykc::all_shapes();
            const ykc::Shape* sh = ykc::find_shape(shapes, f[1].substr(5));
            if (sh == nullptr) return 2;
            TreeSpec t;
            t.name = f[1];
            t.keys = sh->inserts;
            t.removes = sh->removes;
            std::vector<GapOp> w;
            for (size_t q = 5; q + 1 < f.size(); q += 2) w.push_back({f[q] == "P", unhex(f[q + 1])});
            bool applied = false;
            std::string e = check_gap(t, f[2] == "1", f[3] == "1", atoi(f[4].c_str()), w, applied);
            printf("{\"replay\":\"%s\",\"symptom\":\"%s\"}\n", hm::jesc(a.replay_scenario).c_str(), hm::jesc(e).c_str());
            return e.empty() ? 0 : 1;
        }
        if (f.size() < 8) return 2;
        auto all = make_trees(false);
        for (auto& t : all) {
            if (t.name != f[1]) continue;
            Built b = build(t);
            std::string e;
            bool r2l = f[7] == "1";
            if (f[0] == "scan" || f[0] == "scan_name") e = check_scan(b, unhex(f[2]), ep_parse(f[3]), unhex(f[4]), ep_parse(f[5]), size_t(atoi(f[6].c_str())), r2l, f[0] == "scan_name");
            else e = check_iscan(b, unhex(f[2]), ep_parse(f[3]), unhex(f[4]), ep_parse(f[5]), r2l, f[6] == "1", f[0] == "iscan_name");
            unbuild(b);
            printf("{\"replay\":\"%s\",\"symptom\":\"%s\"}\n", hm::jesc(a.replay_scenario).c_str(), hm::jesc(e).c_str());
            return e.empty() ? 0 : 1;
        }
        return 2;
    }
    double t0 = ykmc::mono_now();
    double deadline = a.deadline_s > 0 ? t0 + a.deadline_s : 0;
    bool any = false;
    int idx = 0;
    for (auto& t : trees) {
        if (!a.only.empty() && t.name.find(a.only) == std::string::npos) continue;
        if ((idx++ % a.nshards) != a.shard) continue;
        Report rp;
        rp.part = part + "/" + t.name;
        hm::crash_part(rp.part, "enum");
        double s0 = ykmc::mono_now();
        if (deadline > 0 && s0 > deadline) {
            printf("{\"part\":\"%s\",\"skipped\":\"deadline\"}\n", hm::jesc(rp.part).c_str());
            continue;
        }
        Built b = build(t);
        rp.states = 1;
        std::map<std::string, int> symptom_count;
        auto record = [&](const std::string& e0, const std::string& repro, const char* cls0) {
            std::string e = e0;
            std::string cls = cls0;
            if (e.rfind("NVSET|", 0) == 0) {
                e = e.substr(6);
                cls = std::string("nvset_") + cls0;
            }
            std::string sym = cls + ":" + e.substr(0, e.find(':') == std::string::npos ? 40 : e.find(':'));
            for (auto& ch : sym) {
                if (ch == ' ') ch = '_';
            }
            if (symptom_count[sym]++ == 0 && rp.viol.size() < 6) {
                rp.viol.emplace_back(sym, e + " || case " + repro);
                rp.repro.push_back(repro);
            }
        };
        for (auto& l : t.endpoints) {
            for (auto le : eps) {
                for (auto& r : t.endpoints) {
                    for (auto re : eps) {
                        if (part == "scan") {
                            for (size_t max : {0u, 1u, 2u, 3u}) {
                                for (int r2l = 0; r2l < 2; ++r2l) {
                                    auto describe = [&]() { return range_str(t.name, l, le, r, re, max, r2l != 0, "scan"); };
                                    hm::CrashScope crash_scope(describe);
                                    std::string e = check_scan(b, l, le, r, re, max, r2l != 0, false);
                                    rp.evaluations++;
                                    if (!e.empty()) record(e, range_str(t.name, l, le, r, re, max, r2l != 0, "scan"), "scan");
                                }
                            }
                            // the name based entry point once per range (argument checks live there too)
                            auto describe = [&]() { return range_str(t.name, l, le, r, re, 0, false, "scan_name"); };
                            hm::CrashScope crash_scope(describe);
                            std::string e = check_scan(b, l, le, r, re, 0, false, true);
                            rp.evaluations++;
                            if (!e.empty()) record(e, range_str(t.name, l, le, r, re, 0, false, "scan_name"), "scan");
                        } else {
                            for (int r2l = 0; r2l < 2; ++r2l) {
                                for (int early = 0; early < 2; ++early) {
                                    auto describe = [&]() { return range_str(t.name, l, le, r, re, size_t(early), r2l != 0, "iscan"); };
                                    hm::CrashScope crash_scope(describe);
                                    std::string e = check_iscan(b, l, le, r, re, r2l != 0, early != 0, false);
                                    rp.evaluations++;
                                    if (!e.empty()) record(e, range_str(t.name, l, le, r, re, size_t(early), r2l != 0, "iscan"), "iscan");
                                }
                                auto describe = [&]() { return range_str(t.name, l, le, r, re, 0, r2l != 0, "iscan_name"); };
                                hm::CrashScope crash_scope(describe);
                                std::string e = check_iscan(b, l, le, r, re, r2l != 0, false, true);
                                rp.evaluations++;
                                if (!e.empty()) record(e, range_str(t.name, l, le, r, re, 0, r2l != 0, "iscan_name"), "iscan");
                            }
                        }
                    }
                }
            }
        }
        // null data views and unknown storage
        {
            std::vector<ykc::ScanTuple> out;
            status st = scan<char>(std::string_view(kSt), std::string_view(nullptr, 1), scan_endpoint::INCLUSIVE, std::string_view(""), scan_endpoint::INF, out, nullptr, 0, false);
            rp.evaluations++;
            if (st != status::ERR_BAD_USAGE) record(std::string("null data view accepted: ") + ykc::st_name(st), "scan;" + t.name + ";nullview", "scan");
            st = scan<char>(std::string_view("no such storage"), std::string_view(""), scan_endpoint::INF, std::string_view(""), scan_endpoint::INF, out, nullptr, 0, false);
            rp.evaluations++;
            if (st != status::WARN_STORAGE_NOT_EXIST) record(std::string("unknown storage: ") + ykc::st_name(st), "scan;" + t.name + ";nostorage", "scan");
            iscan_context* ctx = nullptr;
            void* val = nullptr;
            st = iscan_open(std::string_view("no such storage"), "", scan_endpoint::INF, "", scan_endpoint::INF, false, false, ctx, val);
            rp.evaluations++;
            if (st != status::WARN_STORAGE_NOT_EXIST || ctx != nullptr) record(std::string("iscan unknown storage: ") + ykc::st_name(st), "iscan;" + t.name + ";nostorage", "iscan");
            st = iscan_open(std::string_view(kSt), std::string_view(nullptr, 1), scan_endpoint::INCLUSIVE, "", scan_endpoint::INF, false, false, ctx, val);
            rp.evaluations++;
            if (st != status::ERR_BAD_USAGE) record(std::string("iscan null data view accepted: ") + ykc::st_name(st), "iscan;" + t.name + ";nullview", "iscan");
        }
        rp.transitions = rp.evaluations;
        rp.nontrivial = rp.evaluations; // every case is a distinct (tree, argument tuple)
        rp.samples.push_back(range_str(t.name, t.endpoints[t.endpoints.size() / 2], scan_endpoint::INCLUSIVE, t.endpoints.back(), scan_endpoint::EXCLUSIVE, 2, false, part.c_str()));
        for (auto& sc : symptom_count) {
            if (sc.second > 1) rp.samples.push_back("symptom " + sc.first + " x" + std::to_string(sc.second));
        }
        unbuild(b);
        rp.wall = ykmc::mono_now() - s0;
        print(rp);
        any |= !rp.viol.empty();
    }
    return any ? 1 : 0;
}
