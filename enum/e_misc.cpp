// E3 ykenum: exhaustive finite-domain enumerations on the real code.
//   putinfo  (C12)  every (seed shape, new key): inserted_node_info vs version diff of all border nodes
//   values   (C15)  lengths x alignments x insert/overwrite x readers x layer
//   version  (C17)  1600 boundary words x every public operation, sequences up to length 3
//   compare  (C18)  all pairs of (slice,length) tuples over {00,01,FF}; node-level comparison sites; split side decisions
//   perm     (C19)  closure of the permutation word for n <= 6, structured family for n = 7..15
#include <numeric>
#include <unordered_set>

#include "../engine/hmain.h"
#include "../engine/ykc.h"

using namespace yakushima;
using ykc::Model;

static const char* kSt = "s";

struct Report {
    std::string part;
    long evaluations = 0, nontrivial = 0, states = 0, transitions = 0;
    bool exhaustive = true;
    std::vector<std::string> samples;
    std::vector<std::pair<std::string, std::string>> viol;
    std::vector<std::string> repro;
    std::map<std::string, long> counts;
    double wall = 0;
    void fail(const std::string& sym, const std::string& detail, const std::string& rep) {
        if (counts[sym]++ == 0 && viol.size() < 10) {
            viol.emplace_back(sym, detail + " || case " + rep);
            repro.push_back(rep);
        }
    }
};
static void print(const Report& r) {
    printf("{\"engine\":\"ykenum\",\"part\":\"%s\",\"scenario\":\"%s\",\"sigclass\":\"enum\",\"states\":%ld,\"transitions\":%ld,\"evaluations\":%ld,"
           "\"nontrivial\":%ld,\"exhaustive\":%s,\"wall\":%.2f,\"samples\":[",
           hm::jesc(r.part).c_str(), hm::jesc(r.part).c_str(), r.states > 0 ? r.states : r.evaluations, r.transitions > 0 ? r.transitions : r.evaluations,
           r.evaluations, r.nontrivial, r.exhaustive ? "true" : "false", r.wall);
    for (size_t i = 0; i < r.samples.size(); ++i) printf("%s\"%s\"", i != 0 ? "," : "", hm::jesc(r.samples[i]).c_str());
    printf("],\"violations\":[");
    for (size_t i = 0; i < r.viol.size(); ++i) {
        printf("%s{\"symptom\":\"%s\",\"detail\":\"%s\",\"repro\":\"%s\"}", i != 0 ? "," : "", hm::jesc(r.viol[i].first).c_str(),
               hm::jesc(r.viol[i].second).c_str(), hm::jesc(r.repro[i]).c_str());
    }
    printf("]}\n");
    fflush(stdout);
}
static std::string hexs(const std::string& s) {
    static const char* d = "0123456789abcdef";
    std::string o;
    for (unsigned char c : s) {
        o.push_back(d[c >> 4]);
        o.push_back(d[c & 15]);
    }
    return o;
}

struct Built {
    tree_instance* ti = nullptr;
    Token tk{};
    Model m;
};
static Built build_shape(const ykc::Shape& sh) {
    Built b;
    ykc::sequential_teardown_mode();
    ykc::reset_library_statics();
    create_storage(kSt);
    find_storage(kSt, &b.ti);
    enter(b.tk);
    if (sh.name == "NOROOT") ykc::destroy_tree(b.ti);
    b.m = ykc::build_shape(sh, b.tk, b.ti);
    return b;
}
static void unbuild(Built& b) {
    leave(b.tk);
    destroy();
    ykc::drain_retired();
}

// =====================================================================================
// C12
// =====================================================================================
static std::map<border_node*, uint64_t> border_words(tree_instance* ti) {
    ykc::WalkOut w;
    ykc::walk_tree(w, ti);
    std::map<border_node*, uint64_t> m;
    for (auto* b : w.borders) {
        auto body = b->version_.body_.load();
        uint64_t raw = 0;
        memcpy(&raw, &body, 8);
        m[b] = raw;
    }
    return m;
}

static void part_putinfo(Report& rp, bool quick, int shard, int nshards) {
    auto shapes = ykc::all_shapes();
    shapes.push_back(ykc::shape_ifull());
    {
        ykc::Shape s;
        s.name = "EMPTY";
        s.pal = {{"a", "a"}};
        shapes.push_back(s);
    }
    int idx = 0;
    for (auto& sh : shapes) {
        if ((idx++ % nshards) != shard) continue;
        std::set<std::string> cand;
        std::set<std::string> present(sh.inserts.begin(), sh.inserts.end());
        for (auto& r : sh.removes) present.erase(r);
        for (auto& kv : sh.pal) cand.insert(kv.second);
        std::vector<std::string> pk(present.begin(), present.end());
        for (size_t i = 0; i < pk.size(); i += (quick ? 3 : 1)) {
            cand.insert(pk[i] + "5");
            if (!pk[i].empty()) cand.insert(pk[i].substr(0, pk[i].size() - 1));
        }
        cand.insert("");
        cand.insert("00");
        cand.insert("zzzz");
        cand.insert("QQQQQQQQa");                // one new layer
        cand.insert("QQQQQQQQRRRRRRRRb");        // two new layers
        cand.insert(ykc::P8() + "zz");
        cand.insert(ykc::P8() + ykc::P8() + "zz");
        for (auto& k : cand) {
            for (int mode = 0; mode < 3; ++mode) { // 0 new key + info, 1 new key + legacy pointer, 2 overwrite of every present key (once)
                if (mode == 2 && k != *cand.begin()) continue;
                std::vector<std::string> keys = {k};
                if (mode == 2) keys.assign(present.begin(), present.end());
                for (auto& key : keys) {
                    bool is_present = present.count(key) != 0;
                    if (mode != 2 && is_present) continue;
                    Built b = build_shape(sh);
                    auto before = border_words(b.ti);
                    inserted_node_info info{reinterpret_cast<node_version64*>(0x1), reinterpret_cast<node_version64*>(0x1)}; // NOLINT
                    node_version64* legacy = nullptr;
                    std::string v = ykc::val_of(key, 1);
                    status st{};
                    if (mode == 1) {
                        char* vp = v.data();
                        st = put<char>(b.tk, std::string_view(kSt), std::string_view(key), vp, v.size(), static_cast<char**>(nullptr),
                                       static_cast<value_align_type>(1), false, &legacy);
                    } else {
                        st = ykc::t_put(b.tk, b.ti, key, v, false, &info);
                    }
                    auto after = border_words(b.ti);
                    rp.evaluations++;
                    std::string rep = sh.name + ";" + hexs(key) + ";" + std::to_string(mode);
                    if (st != status::OK) rp.fail("putinfo:status", std::string("put returned ") + ykc::st_name(st), rep);
                    std::set<border_node*> changed, created;
                    border_node* split_node = nullptr;
                    for (auto& kv : after) {
                        auto it = before.find(kv.first);
                        if (it == before.end()) {
                            created.insert(kv.first);
                        } else if (it->second != kv.second) {
                            changed.insert(kv.first);
                            uint64_t vs_b = (it->second >> 32) & ((1ULL << 29) - 1), vs_a = (kv.second >> 32) & ((1ULL << 29) - 1);
                            if (vs_b != vs_a) split_node = kv.first;
                        }
                    }
                    if (mode == 2) {
                        if (!changed.empty() || !created.empty()) rp.fail("putinfo:overwrite_changed_version", "an overwrite changed a border version or created a node", rep);
                    } else {
                        rp.nontrivial++;
                        node_version64* mod = mode == 1 ? legacy : info.modified_nvp;
                        // the reported modified node: a pre-existing border whose word changed, or (NOROOT / new layers only) ...
                        border_node* mod_node = nullptr;
                        for (auto& kv : after) {
                            if (kv.first->get_version_ptr() == mod) mod_node = kv.first;
                        }
                        if (mod_node == nullptr) {
                            rp.fail("putinfo:modified_not_a_border", "reported modified node is not a reachable border node", rep);
                        } else {
                            std::set<border_node*> want_changed = changed;
                            if (before.count(mod_node) == 0) {
                                // only legal when the tree had no root at all: the new root is reported as modified
                                if (!before.empty()) rp.fail("putinfo:modified_is_new_node", "reported modified node did not exist before the call", rep);
                            } else if (changed.count(mod_node) == 0) {
                                rp.fail("putinfo:modified_unchanged", "reported modified node kept its version word", rep);
                            }
                            want_changed.erase(mod_node);
                            if (!want_changed.empty()) rp.fail("putinfo:unreported_change", std::to_string(want_changed.size()) + " other pre-existing border node(s) changed their version word", rep);
                        }
                        if (mode == 0) {
                            if (split_node != nullptr) {
                                if (info.created_nvp == nullptr) {
                                    rp.fail("putinfo:split_not_reported", "a border split but created_nvp is null", rep);
                                } else if (split_node->next_ == nullptr || split_node->next_->get_version_ptr() != info.created_nvp) {
                                    rp.fail("putinfo:created_wrong", "created_nvp is not the new right sibling of the split node", rep);
                                } else if (created.count(split_node->next_) == 0) {
                                    rp.fail("putinfo:created_not_new", "created_nvp designates a node that existed before", rep);
                                }
                                if (mod_node != split_node) rp.fail("putinfo:modified_not_split_node", "modified_nvp is not the node that split", rep);
                            } else if (info.created_nvp != nullptr) {
                                rp.fail("putinfo:created_without_split", "created_nvp set although no border split", rep);
                            }
                        }
                    }
                    unbuild(b);
                }
            }
        }
        if (rp.samples.size() < 3) rp.samples.push_back(sh.name + ": " + std::to_string(cand.size()) + " candidate keys x {info, legacy} + overwrites");
    }
}

// =====================================================================================
// C15
// =====================================================================================
static void part_values(Report& rp, bool quick, int shard, int nshards) {
    std::vector<size_t> lens = {0, 1, 7, 8, 9, 15, 16, 17, 255, 256, 4095, 4096, 4097, 65535, 65536};
    if (!quick) {
        lens.push_back(1u << 20);
        lens.push_back(3u * (1u << 20) + 1);
    }
    std::vector<size_t> aligns = {1, 2, 4, 8, 16, 32, 64, 128, 256, 512, 1024, 2048, 4096};
    std::vector<std::string> keys = {"k", ykc::P8() + "k"};
    int idx = 0;
    auto pattern = [](size_t len, int salt) {
        std::string s(len, '\0');
        for (size_t i = 0; i < len; ++i) s[i] = char((i * 131 + size_t(salt) * 17 + (i >> 8)) & 0xff);
        return s;
    };
    for (size_t len : lens) {
        for (size_t al : aligns) {
            if ((idx++ % nshards) != shard) continue;
            for (auto& key : keys) {
                for (int overwrite = 0; overwrite < 2; ++overwrite) {
                    ykc::sequential_teardown_mode();
                    ykc::reset_library_statics();
                    ykalloc::clear_errors();
                    ykalloc::begin_tracking();
                    create_storage(kSt);
                    tree_instance* ti = nullptr;
                    find_storage(kSt, &ti);
                    Token tk{};
                    enter(tk);
                    std::string rep = std::to_string(len) + ";" + std::to_string(al) + ";" + hexs(key) + ";" + std::to_string(overwrite);
                    char* created = nullptr;
                    std::string v;
                    if (overwrite != 0) {
                        // first a value with another length and alignment
                        std::string v0 = pattern(len / 2 + 3, 7);
                        ykc::t_put(tk, ti, key, v0, false, nullptr, nullptr, al == 1 ? 64 : 1);
                    }
                    ykc::t_put(tk, ti, "a", "x", false);
                    v = pattern(len, 1);
                    status st = ykc::t_put(tk, ti, key, v, false, nullptr, &created, al);
                    rp.evaluations++;
                    rp.nontrivial++;
                    if (st != status::OK) rp.fail("value:put_status", ykc::st_name(st), rep);
                    // get
                    auto g = ykc::t_get(ti, key);
                    if (g.st != status::OK || g.null_ok) {
                        rp.fail("value:get_status", ykc::st_name(g.st), rep);
                    } else {
                        if (g.len != len) rp.fail("value:length", "get length " + std::to_string(g.len) + " want " + std::to_string(len), rep);
                        if (g.bytes != v) rp.fail("value:bytes", "get returned different bytes", rep);
                        if (reinterpret_cast<uintptr_t>(g.ptr) % al != 0) rp.fail("value:alignment", "pointer not aligned to " + std::to_string(al), rep);
                        if (created != g.ptr) rp.fail("value:created_ptr", "created_value_ptr differs from the pointer returned by get", rep);
                    }
                    {
                        std::string me = ykc::check_mem_usage(ti, kSt);
                        if (!me.empty()) rp.fail("mem_usage:mismatch", me, rep);
                    }
                    // scan
                    std::vector<ykc::ScanTuple> out;
                    ykc::t_scan(ti, "", scan_endpoint::INF, "", scan_endpoint::INF, out);
                    bool found = false;
                    for (auto& t : out) {
                        if (std::get<0>(t) != key) continue;
                        found = true;
                        if (std::get<2>(t) != len || std::get<1>(t) == nullptr || std::string(std::get<1>(t), std::get<2>(t)) != v) rp.fail("value:scan", "scan returned different bytes/length", rep);
                        else if (std::get<1>(t) != g.ptr) rp.fail("value:scan_ptr", "scan returned another copy than get", rep);
                    }
                    if (!found) rp.fail("value:scan_missing", "scan did not return the key", rep);
                    // iscan
                    iscan_context* ctx = nullptr;
                    void* val = nullptr;
                    status is = iscan_open(ti, key, scan_endpoint::INCLUSIVE, key, scan_endpoint::INCLUSIVE, ctx, val, dummycallback, false, false);
                    if (is != status::OK || val == nullptr) rp.fail("value:iscan_status", ykc::st_name(is), rep);
                    else if (val != g.ptr) rp.fail("value:iscan_ptr", "iscan returned another pointer than get", rep);
                    if (ctx != nullptr) iscan_close(ctx);
                    leave(tk);
                    destroy();
                    ykc::drain_retired();
                    ykalloc::end_tracking();
                    if (!ykalloc::errors().empty()) rp.fail("value:allocator", ykalloc::errors()[0], rep);
                    if (ykalloc::live_aligned() != 0) rp.fail("value:leak", std::to_string(ykalloc::live_aligned()) + " blocks left", rep);
                }
            }
        }
    }
    // inline value types: stored and returned by value
    if (shard == 0) {
        ykc::sequential_teardown_mode();
        ykc::reset_library_statics();
        create_storage(kSt);
        tree_instance* ti = nullptr;
        find_storage(kSt, &ti);
        Token tk{};
        enter(tk);
        std::vector<uintptr_t> vals = {0, 1, 0x1234567890ULL, (1ULL << 47) - 8, 0x00007ffffffffff8ULL};
        for (auto pv : vals) {
            for (auto& key : keys) {
                void* p = reinterpret_cast<void*>(pv); // NOLINT
                status st = put<void*>(tk, ti, std::string_view(key), &p, false);
                std::pair<void**, std::size_t> out{};
                status gs = get<void*>(ti, std::string_view(key), out);
                rp.evaluations++;
                std::string rep = "inline;" + std::to_string(pv) + ";" + hexs(key);
                if (st != status::OK || gs != status::OK) rp.fail("value:inline_status", "put/get of pointer value failed", rep);
                else if (reinterpret_cast<uintptr_t>(out.first) != pv) rp.fail("value:inline_value", "pointer value not returned by value", rep);
                else if (out.second != sizeof(void*)) rp.fail("value:inline_length", "length of inline value is not sizeof(void*)", rep);
                uintptr_t u = pv;
                st = put<uintptr_t>(tk, ti, std::string_view(key + "u"), &u, false);
                std::pair<uintptr_t*, std::size_t> out2{};
                gs = get<uintptr_t>(ti, std::string_view(key + "u"), out2);
                rp.evaluations++;
                if (st != status::OK || gs != status::OK) rp.fail("value:inline_status", "put/get of uintptr_t value failed", rep);
                else if (reinterpret_cast<uintptr_t>(out2.first) != pv) rp.fail("value:inline_value", "uintptr_t value not returned by value", rep);
                // overwrite and remove keep working with inline values
                st = remove(tk, ti, std::string_view(key));
                if (st != status::OK) rp.fail("value:inline_remove", ykc::st_name(st), rep);
                remove(tk, ti, std::string_view(key + "u"));
            }
        }
        leave(tk);
        destroy();
        ykc::drain_retired();
        rp.samples.push_back("inline: void* and uintptr_t values " + std::to_string(vals.size()) + " x 2 keys");
    }
    rp.samples.push_back("len x align x {layer0, layer1} x {insert, overwrite}: get/scan/iscan/created_value_ptr");
}

// =====================================================================================
// C17 (values)
// =====================================================================================
namespace vw {
constexpr uint64_t M29 = (1ULL << 29) - 1;
struct F {
    uint64_t vins, locked, ins, spl, vspl, del, root, border;
};
static F dec(uint64_t w) { return {w & M29, (w >> 29) & 1, (w >> 30) & 1, (w >> 31) & 1, (w >> 32) & M29, (w >> 61) & 1, (w >> 62) & 1, (w >> 63) & 1}; }
static uint64_t enc(const F& f) {
    return (f.vins & M29) | (f.locked << 29) | (f.ins << 30) | (f.spl << 31) | ((f.vspl & M29) << 32) | (f.del << 61) | (f.root << 62) | (f.border << 63);
}
static uint64_t raw(const node_version64_body& b) {
    uint64_t r = 0;
    memcpy(&r, &b, 8);
    return r;
}
static node_version64_body body(uint64_t w) {
    node_version64_body b{};
    memcpy(static_cast<void*>(&b), &w, 8);
    return b;
}
enum Op { SET_LOCK0, SET_LOCK1, SET_INS0, SET_INS1, SET_SPL0, SET_SPL1, SET_DEL0, SET_DEL1, SET_ROOT0, SET_ROOT1, SET_BORDER0, SET_BORDER1, INC_VINS,
          INC_VSPL, A_INS1, A_INS0, A_SPL1, A_SPL0, A_DEL1, A_DEL0, A_ROOT1, A_ROOT0, A_BORDER1, A_BORDER0, A_INC_VINS, LOCK, UNLOCK, NOPS };
static const char* names[] = {"set_locked(0)", "set_locked(1)", "set_ins(0)", "set_ins(1)", "set_spl(0)", "set_spl(1)", "set_del(0)", "set_del(1)", "set_root(0)",
                              "set_root(1)", "set_border(0)", "set_border(1)", "inc_vins", "inc_vspl", "atomic_ins(1)", "atomic_ins(0)", "atomic_spl(1)",
                              "atomic_spl(0)", "atomic_del(1)", "atomic_del(0)", "atomic_root(1)", "atomic_root(0)", "atomic_border(1)", "atomic_border(0)",
                              "atomic_inc_vinsert", "lock", "unlock"};
// reference semantics on the decoded fields; returns false if the op is not applicable (lock on a locked word would spin)
static bool ref(Op op, F& f) {
    switch (op) {
        case SET_LOCK0: f.locked = 0; break;
        case SET_LOCK1: f.locked = 1; break;
        case SET_INS0: case A_INS0: f.ins = 0; break;
        case SET_INS1: case A_INS1: f.ins = 1; break;
        case SET_SPL0: case A_SPL0: f.spl = 0; break;
        case SET_SPL1: case A_SPL1: f.spl = 1; break;
        case SET_DEL0: case A_DEL0: f.del = 0; break;
        case SET_DEL1: case A_DEL1: f.del = 1; break;
        case SET_ROOT0: case A_ROOT0: f.root = 0; break;
        case SET_ROOT1: case A_ROOT1: f.root = 1; break;
        case SET_BORDER0: case A_BORDER0: f.border = 0; break;
        case SET_BORDER1: case A_BORDER1: f.border = 1; break;
        case INC_VINS: case A_INC_VINS: f.vins = (f.vins + 1) & M29; break;
        case INC_VSPL: f.vspl = (f.vspl + 1) & M29; break;
        case LOCK:
            if (f.locked != 0) return false;
            f.locked = 1;
            break;
        case UNLOCK:
            if (f.locked == 0) return false; // precondition: caller holds the lock
            if (f.ins != 0) {
                f.vins = (f.vins + 1) & M29;
                f.ins = 0;
            }
            if (f.spl != 0) {
                f.vspl = (f.vspl + 1) & M29;
                f.spl = 0;
            }
            f.locked = 0;
            break;
        default: return false;
    }
    return true;
}
static uint64_t real(Op op, uint64_t w) {
    if (op <= INC_VSPL) {
        node_version64_body b = body(w);
        switch (op) {
            case SET_LOCK0: b.set_locked(false); break;
            case SET_LOCK1: b.set_locked(true); break;
            case SET_INS0: b.set_inserting_deleting(false); break;
            case SET_INS1: b.set_inserting_deleting(true); break;
            case SET_SPL0: b.set_splitting(false); break;
            case SET_SPL1: b.set_splitting(true); break;
            case SET_DEL0: b.set_deleted(false); break;
            case SET_DEL1: b.set_deleted(true); break;
            case SET_ROOT0: b.set_root(false); break;
            case SET_ROOT1: b.set_root(true); break;
            case SET_BORDER0: b.set_border(false); break;
            case SET_BORDER1: b.set_border(true); break;
            case INC_VINS: b.inc_vinsert_delete(); break;
            case INC_VSPL: b.inc_vsplit(); break;
            default: break;
        }
        return raw(b);
    }
    node_version64 v;
    v.set_body(body(w));
    switch (op) {
        case A_INS1: v.atomic_set_inserting_deleting(true); break;
        case A_INS0: v.atomic_set_inserting_deleting(false); break;
        case A_SPL1: v.atomic_set_splitting(true); break;
        case A_SPL0: v.atomic_set_splitting(false); break;
        case A_DEL1: v.atomic_set_deleted(true); break;
        case A_DEL0: v.atomic_set_deleted(false); break;
        case A_ROOT1: v.atomic_set_root(true); break;
        case A_ROOT0: v.atomic_set_root(false); break;
        case A_BORDER1: v.atomic_set_border(true); break;
        case A_BORDER0: v.atomic_set_border(false); break;
        case A_INC_VINS: v.atomic_inc_vinsert(); break;
        case LOCK: v.lock(); break;
        case UNLOCK: v.unlock(); break;
        default: break;
    }
    return raw(v.get_body());
}
} // namespace vw

static void part_version(Report& rp, bool quick) {
    using namespace vw;
    std::vector<uint64_t> counters = {0, 1, 2, M29 - 1, M29};
    std::vector<uint64_t> words;
    for (uint64_t flags = 0; flags < 64; ++flags) {
        for (auto vi : counters) {
            for (auto vs : counters) {
                F f{vi, flags & 1, (flags >> 1) & 1, (flags >> 2) & 1, vs, (flags >> 3) & 1, (flags >> 4) & 1, (flags >> 5) & 1};
                words.push_back(enc(f));
            }
        }
    }
    // accessors agree with the layout
    for (auto w : words) {
        node_version64_body b = body(w);
        F f = dec(w);
        rp.evaluations++;
        bool ok = b.get_vinsert_delete() == f.vins && b.get_locked() == (f.locked != 0) && b.get_inserting_deleting() == (f.ins != 0) &&
                  b.get_splitting() == (f.spl != 0) && b.get_vsplit() == f.vspl && b.get_deleted() == (f.del != 0) && b.get_root() == (f.root != 0) &&
                  b.get_border() == (f.border != 0);
        if (!ok) rp.fail("version:accessor", "field accessors disagree with the word layout", std::to_string(w));
        node_version64 v;
        v.set_body(b);
        if (f.locked == 0 && f.ins == 0 && f.spl == 0) {
            if (raw(v.get_stable_version()) != w) rp.fail("version:stable", "get_stable_version changed a stable word", std::to_string(w));
        }
        if (body(w) != b || !(body(w) == b)) rp.fail("version:equality", "operator== is not reflexive", std::to_string(w));
    }
    // sequences up to length 3
    int maxlen = quick ? 2 : 3;
    std::function<void(uint64_t, uint64_t, int, std::string)> rec = [&](uint64_t w0, uint64_t w, int depth, const std::string& path) {
        if (depth == maxlen) return;
        for (int o = 0; o < NOPS; ++o) {
            F f = dec(w);
            if (!ref(Op(o), f)) continue;
            uint64_t want = enc(f);
            uint64_t got = real(Op(o), w);
            rp.evaluations++;
            rp.nontrivial++;
            if (got != want) {
                char buf[200];
                snprintf(buf, sizeof(buf), "start=%016lx path=%s%s got=%016lx want=%016lx", w0, path.c_str(), names[o], got, want);
                rp.fail(std::string("version:") + names[o], "operation result differs from the field arithmetic", buf);
                continue;
            }
            rec(w0, got, depth + 1, path + names[o] + ",");
        }
    };
    for (auto w : words) rec(w, w, 0, "");
    rp.samples.push_back("1600 words = 64 flag combinations x counters {0,1,2,2^29-2,2^29-1}^2; 27 operations; sequences up to length " + std::to_string(maxlen));
}

// =====================================================================================
// C18
// =====================================================================================
static void part_compare(Report& rp, bool quick, int shard, int nshards) {
    using kt = base_node::key_tuple;
    const unsigned char alpha[3] = {0x00, 0x01, 0xff};
    // D: all (slice, length) for byte strings of length 0..8 over the alphabet, plus link markers for every 8 byte slice
    struct T {
        key_slice_type s;
        key_length_type l;
    };
    auto gen = [&](int nalpha) {
        std::vector<T> d;
        for (int len = 0; len <= 8; ++len) {
            long n = 1;
            for (int i = 0; i < len; ++i) n *= nalpha;
            for (long c = 0; c < n; ++c) {
                key_slice_type s = 0;
                long x = c;
                auto* p = reinterpret_cast<unsigned char*>(&s); // NOLINT
                for (int i = 0; i < len; ++i) {
                    p[i] = alpha[(nalpha == 2 && x % nalpha == 1) ? 2 : x % nalpha];
                    x /= nalpha;
                }
                d.push_back({s, key_length_type(len)});
                if (len == 8) d.push_back({s, 9});
            }
        }
        return d;
    };
    std::vector<T> D = gen(3), D2 = gen(2);
    if (shard == 0) {
        // key_tuple operators on all pairs of D (quick: all pairs of D2 + a strided sample of D)
        const std::vector<T>& dom = D;
        size_t stride = quick ? 37 : 1;
        for (size_t i = 0; i < dom.size(); i += stride) {
            kt a(dom[i].s, dom[i].l);
            for (size_t j = 0; j < dom.size(); ++j) {
                kt b(dom[j].s, dom[j].l);
                int c = ykc::ref_cmp_tuple(dom[i].s, dom[i].l, dom[j].s, dom[j].l);
                rp.evaluations++;
                bool ok = (a < b) == (c < 0) && (a > b) == (c > 0) && (a <= b) == (c <= 0) && (a >= b) == (c >= 0) && (a == b) == (c == 0) && (a != b) == (c != 0);
                if (!ok) {
                    char buf[160];
                    snprintf(buf, sizeof(buf), "a=(%016lx,%d) b=(%016lx,%d) ref=%d", dom[i].s, dom[i].l, dom[j].s, dom[j].l, c);
                    rp.fail("compare:key_tuple_operator", "key_tuple comparison disagrees with bytewise order", buf);
                }
            }
        }
        rp.nontrivial += rp.evaluations;
        rp.samples.push_back("key_tuple operators: " + std::to_string(D.size()) + " tuples, stride " + std::to_string(stride) + " x all");
        // key_tuple(string_view) constructor
        for (auto& t : D2) {
            std::string s = ykc::tuple_bytes(t.s, t.l) + (t.l > 8 ? "x" : "");
            kt k{std::string_view(s)};
            rp.evaluations++;
            if (k.get_key_slice() != t.s || k.get_key_length() != t.l) rp.fail("compare:key_tuple_ctor", "key_tuple(string_view) builds a different tuple", hexs(s));
        }
    }
    // node-level sites on hand-built nodes, all pairs of D2
    if (shard == 1 % nshards) {
        ykc::sequential_teardown_mode();
        for (size_t i = 0; i < D2.size(); ++i) {
            for (size_t j = 0; j < D2.size(); ++j) {
                const T& a = D2[i];
                const T& b = D2[j];
                int c = ykc::ref_cmp_tuple(b.s, b.l, a.s, a.l); // b relative to a
                // border holding {a}: lookup and rank of b
                border_node bn;
                bn.init_border();
                bn.key_slice_[0] = a.s;
                bn.key_length_[0] = a.l;
                bn.permutation_.body_.store((0ULL << 4) | 1ULL);
                rp.evaluations++;
                link_or_value* lv = bn.get_lv_of_without_lock(b.s, b.l);
                if ((lv != nullptr) != (c == 0)) rp.fail("compare:border_lookup", "get_lv_of_without_lock match differs from tuple equality", std::to_string(i) + "," + std::to_string(j));
                node_version64_body sv{};
                size_t pos = 0;
                link_or_value* lv2 = bn.get_lv_of(b.s, b.l, sv, pos);
                if ((lv2 != nullptr) != (c == 0)) rp.fail("compare:border_lookup", "get_lv_of match differs from tuple equality", std::to_string(i) + "," + std::to_string(j));
                if (c != 0) {
                    size_t rank = bn.compute_rank_if_insert(b.s, b.l);
                    if (rank != (c < 0 ? 0u : 1u)) rp.fail("compare:border_rank", "compute_rank_if_insert puts the key on the wrong side", std::to_string(i) + "," + std::to_string(j));
                }
                // interior with separator a: child 0 for b < a, child 1 otherwise
                if (a.l != 0) {
                    interior_node in;
                    in.init_interior();
                    border_node c0, c1;
                    c0.init_border();
                    c1.init_border();
                    c0.set_version_root(false);
                    c1.set_version_root(false);
                    in.key_slice_[0] = a.s;
                    in.key_length_[0] = a.l;
                    in.children[0] = &c0;
                    in.children[1] = &c1;
                    in.n_keys_.store(1);
                    node_version64_body v = in.get_stable_version();
                    base_node* ch = in.get_child_of(b.s, b.l, v);
                    base_node* want = c < 0 ? static_cast<base_node*>(&c0) : static_cast<base_node*>(&c1);
                    rp.evaluations++;
                    if (ch != want) rp.fail("compare:interior_route", "get_child_of routes to the wrong child", std::to_string(i) + "," + std::to_string(j));
                    // interior insert of pivot b (b != a, b non-empty): separators must end up sorted
                    if (c != 0 && b.l != 0) {
                        border_node c2;
                        c2.init_border();
                        in.lock();
                        in.insert(&c2, std::make_pair(b.s, b.l));
                        in.version_unlock();
                        rp.evaluations++;
                        bool sorted = ykc::ref_cmp_tuple(in.key_slice_[0], in.key_length_[0], in.key_slice_[1], in.key_length_[1]) < 0;
                        size_t want_pos = c < 0 ? 1 : 2;
                        if (!sorted || in.children[want_pos] != &c2) rp.fail("compare:interior_insert", "interior insert placed the pivot on the wrong side", std::to_string(i) + "," + std::to_string(j));
                    }
                }
            }
        }
        rp.nontrivial += long(D2.size() * D2.size());
        rp.samples.push_back("node sites: border lookup/rank, interior route/insert on all " + std::to_string(D2.size() * D2.size()) + " pairs over {00,FF}");
        // rearrange on all 3-subsets of a D2 sample
        std::vector<T> S;
        for (size_t i = 0; i < D2.size(); i += quick ? 23 : 7) S.push_back(D2[i]);
        for (size_t i = 0; i < S.size(); ++i) {
            for (size_t j = 0; j < S.size(); ++j) {
                for (size_t k = 0; k < S.size(); ++k) {
                    if (i == j || j == k || i == k) continue;
                    if (ykc::ref_cmp_tuple(S[i].s, S[i].l, S[j].s, S[j].l) == 0 || ykc::ref_cmp_tuple(S[j].s, S[j].l, S[k].s, S[k].l) == 0 ||
                        ykc::ref_cmp_tuple(S[i].s, S[i].l, S[k].s, S[k].l) == 0) continue;
                    std::array<key_slice_type, key_slice_length> ks{};
                    std::array<key_length_type, key_slice_length> kl{};
                    ks[0] = S[i].s; kl[0] = S[i].l;
                    ks[1] = S[j].s; kl[1] = S[j].l;
                    ks[2] = S[k].s; kl[2] = S[k].l;
                    permutation p;
                    p.body_.store(3);
                    p.rearrange(ks, kl);
                    rp.evaluations++;
                    bool ok = p.get_cnk() == 3;
                    for (size_t r = 0; ok && r + 1 < 3; ++r) {
                        size_t x = p.get_index_of_rank(r), y = p.get_index_of_rank(r + 1);
                        if (x > 2 || y > 2 || ykc::ref_cmp_tuple(ks[x], kl[x], ks[y], kl[y]) >= 0) ok = false;
                    }
                    if (!ok) rp.fail("compare:rearrange", "permutation::rearrange does not sort by bytewise order", std::to_string(i) + "," + std::to_string(j) + "," + std::to_string(k));
                }
            }
        }
    }
    // split of a full border where an 8-byte key and the link of the same slice (tuples (S,8) and (S,9)) meet at every rank,
    // in both insertion orders, for short and long neighbours
    if (shard == 2 % nshards) {
        for (int r = 0; r < 15; ++r) {
            for (int mode = 0; mode < 4; ++mode) {
                // mode 0: link present at rank r, insert the 8-byte key; 1: 8-byte key present, insert a longer key (creates the link);
                // 2/3: the same with 3-byte neighbours instead of 8-byte ones
                Built b;
                ykc::sequential_teardown_mode();
                ykc::reset_library_statics();
                create_storage(kSt);
                find_storage(kSt, &b.ti);
                enter(b.tk);
                std::vector<std::string> ins;
                auto nk = [&](int i) {
                    char buf[16];
                    if (mode >= 2) snprintf(buf, sizeof(buf), "k%02d", i);
                    else snprintf(buf, sizeof(buf), "kkkkkk%02d", i);
                    return std::string(buf);
                };
                std::string s8 = nk(r);
                if (mode >= 2) s8 = s8 + std::string(8 - s8.size(), 'z'); // 8-byte slice sorting right after k<r>
                std::string longk = s8 + "tail";
                for (int i = 0; i < 15; ++i) {
                    if (i == r) ins.push_back((mode % 2) == 0 ? longk : s8);
                    else ins.push_back(nk(i));
                }
                std::string last = (mode % 2) == 0 ? s8 : longk;
                ins.push_back(last);
                for (auto& k : ins) {
                    ykc::t_put(b.tk, b.ti, k, ykc::val_of(k));
                    b.m[k] = ykc::val_of(k);
                }
                rp.evaluations++;
                rp.nontrivial++;
                std::string e = ykc::check_tree(b.ti, b.m);
                if (e.empty()) e = ykc::api_agreement(b.ti, b.m, ins);
                if (!e.empty()) rp.fail("compare:split_slice_tie", e, "rank" + std::to_string(r) + ";mode" + std::to_string(mode));
                unbuild(b);
            }
        }
        rp.samples.push_back("split with (S,8)/(S,9) tie at every rank 0..14, both insertion orders, 8-byte and 3-byte neighbours");
    }
    // split side decisions and scan order through the API: windows of 15 consecutive strings + a 16th key
    {
        std::vector<std::string> strs;
        for (int len = 0; len <= 10; ++len) {
            // all strings over {00,FF} up to length 3, and longer ones with a fixed 0x01 filler so that slices differ late
            long n = 1L << (len < 4 ? len : 4);
            for (long c = 0; c < n; ++c) {
                std::string s(size_t(len), '\x01');
                for (int i = 0; i < len && i < 4; ++i) s[size_t(len - 1 - i)] = ((c >> i) & 1) != 0 ? '\xff' : '\x00';
                strs.push_back(s);
            }
        }
        std::sort(strs.begin(), strs.end());
        strs.erase(std::unique(strs.begin(), strs.end()), strs.end());
        size_t step = quick ? 9 : 2;
        int widx = 0;
        for (size_t w = 0; w + 15 <= strs.size(); w += step) {
            if ((widx++ % nshards) != shard) continue;
            for (size_t x = 0; x < strs.size(); ++x) {
                if (x >= w && x < w + 15) continue;
                for (int order = 0; order < 2; ++order) {
                    Built b;
                    ykc::sequential_teardown_mode();
                    ykc::reset_library_statics();
                    create_storage(kSt);
                    find_storage(kSt, &b.ti);
                    enter(b.tk);
                    std::vector<std::string> ins(strs.begin() + long(w), strs.begin() + long(w) + 15);
                    if (order == 1) std::reverse(ins.begin(), ins.end());
                    ins.push_back(strs[x]);
                    for (auto& k : ins) {
                        ykc::t_put(b.tk, b.ti, k, ykc::val_of(k));
                        b.m[k] = ykc::val_of(k);
                    }
                    rp.evaluations++;
                    rp.nontrivial++;
                    std::string e = ykc::check_tree(b.ti, b.m);
                    if (e.empty()) e = ykc::api_agreement(b.ti, b.m, ins);
                    if (!e.empty()) rp.fail("compare:split_or_order", e, "window" + std::to_string(w) + ";" + hexs(strs[x]) + ";" + std::to_string(order));
                    unbuild(b);
                }
            }
        }
        if (shard == 0) rp.samples.push_back("split side decision: windows of 15 consecutive keys out of " + std::to_string(strs.size()) + " binary strings + every other key as 16th insert, 2 insertion orders");
    }
}

// =====================================================================================
// C19
// =====================================================================================
static std::vector<int> perm_list(uint64_t w) {
    std::vector<int> v;
    size_t n = w & 0xf;
    for (size_t r = 0; r < n; ++r) v.push_back(int((w >> (4 * (r + 1))) & 0xf));
    return v;
}
static bool perm_valid(uint64_t w, const std::vector<int>& want, std::string& why) {
    std::vector<int> got = perm_list(w);
    if (got != want) {
        why = "ordering differs";
        return false;
    }
    // bits above the used nibbles must be zero (insert_rank relies on shifts)
    size_t n = w & 0xf;
    if (n < 15 && (w >> (4 * (n + 1))) != 0) {
        why = "garbage above the occupied ranks";
        return false;
    }
    return true;
}

static void part_perm(Report& rp, bool quick) {
    // closure for n <= nmax by DFS over abstract lists (the real word is recomputed by the real operations)
    int nmax = quick ? 5 : 6;
    long states = 0;
    std::unordered_set<uint64_t> seen_words;
    std::function<void(uint64_t, std::vector<int>&)> rec = [&](uint64_t w, std::vector<int>& lst) {
        if (!seen_words.insert(w).second) return;
        states++;
        permutation p(w);
        // free slot
        size_t fs = p.get_empty_slot();
        rp.evaluations++;
        if (fs > 14 || std::find(lst.begin(), lst.end(), int(fs)) != lst.end()) rp.fail("perm:empty_slot", "get_empty_slot returned a slot in use", std::to_string(w));
        if (p.get_cnk() != lst.size()) rp.fail("perm:count", "count nibble differs", std::to_string(w));
        for (size_t r = 0; r < lst.size(); ++r) {
            if (p.get_index_of_rank(r) != size_t(lst[r])) rp.fail("perm:index_of_rank", "get_index_of_rank differs", std::to_string(w));
        }
        if (!lst.empty() && p.get_lowest_key_pos() != size_t(lst[0])) rp.fail("perm:lowest", "get_lowest_key_pos differs", std::to_string(w));
        // deletes
        for (size_t r = 0; r < lst.size(); ++r) {
            permutation q(w);
            q.delete_rank(r);
            std::vector<int> want = lst;
            want.erase(want.begin() + long(r));
            std::string why;
            rp.evaluations++;
            rp.nontrivial++;
            if (!perm_valid(q.get_body(), want, why)) rp.fail("perm:delete_rank", why, std::to_string(w) + ";del" + std::to_string(r));
        }
        if (int(lst.size()) >= nmax) return;
        // inserts: every rank, every free slot (the code always uses get_empty_slot(), the property quantifies over all slots)
        for (size_t r = 0; r <= lst.size(); ++r) {
            for (int slot = 0; slot < 15; ++slot) {
                if (std::find(lst.begin(), lst.end(), slot) != lst.end()) continue;
                permutation q(w);
                q.insert_rank(r, size_t(slot));
                std::vector<int> want = lst;
                want.insert(want.begin() + long(r), slot);
                std::string why;
                rp.evaluations++;
                rp.nontrivial++;
                if (!perm_valid(q.get_body(), want, why)) {
                    rp.fail("perm:insert_rank", why, std::to_string(w) + ";ins" + std::to_string(r) + ":" + std::to_string(slot));
                    continue;
                }
                rec(q.get_body(), want);
            }
        }
    };
    std::vector<int> empty;
    rec(0, empty);
    rp.states = states;
    rp.samples.push_back("closure: all orderings of up to " + std::to_string(nmax) + " of 15 slots: " + std::to_string(states) + " words");
    // n = 7..15: every (n, rank): prior orderings = identity, reverse, and rotations; insert with every free slot; delete every rank
    for (int n = 6; n <= 15; ++n) {
        std::vector<std::vector<int>> fam;
        std::vector<int> id(size_t(n), 0);
        std::iota(id.begin(), id.end(), 0);
        fam.push_back(id);
        std::vector<int> rev = id;
        std::reverse(rev.begin(), rev.end());
        fam.push_back(rev);
        for (int rot = 1; rot < n; rot += (quick ? 3 : 1)) {
            std::vector<int> r = id;
            std::rotate(r.begin(), r.begin() + rot, r.end());
            fam.push_back(r);
            // use the high slots too
            std::vector<int> hi = r;
            for (auto& x : hi) x = 14 - x;
            fam.push_back(hi);
        }
        for (auto& lst : fam) {
            uint64_t w = uint64_t(n);
            for (size_t r = 0; r < lst.size(); ++r) w |= uint64_t(lst[r]) << (4 * (r + 1));
            permutation p(w);
            size_t fs = n < 15 ? p.get_empty_slot() : 0;
            rp.evaluations++;
            if (n < 15 && (fs > 14 || std::find(lst.begin(), lst.end(), int(fs)) != lst.end())) rp.fail("perm:empty_slot", "get_empty_slot returned a slot in use", std::to_string(w));
            for (size_t r = 0; r < lst.size(); ++r) {
                permutation q(w);
                q.delete_rank(r);
                std::vector<int> want = lst;
                want.erase(want.begin() + long(r));
                std::string why;
                rp.evaluations++;
                if (!perm_valid(q.get_body(), want, why)) rp.fail("perm:delete_rank", why, std::to_string(w) + ";del" + std::to_string(r));
            }
            if (n < 15) {
                for (size_t r = 0; r <= lst.size(); ++r) {
                    for (int slot = 0; slot < 15; ++slot) {
                        if (std::find(lst.begin(), lst.end(), slot) != lst.end()) continue;
                        permutation q(w);
                        q.insert_rank(r, size_t(slot));
                        std::vector<int> want = lst;
                        want.insert(want.begin() + long(r), slot);
                        std::string why;
                        rp.evaluations++;
                        rp.nontrivial++;
                        if (!perm_valid(q.get_body(), want, why)) rp.fail("perm:insert_rank", why, std::to_string(w) + ";ins" + std::to_string(r) + ":" + std::to_string(slot));
                    }
                }
            }
            if (n == 15) {
                // the split: 7 x delete_rank(8) on the full node, split_dest(7) on the new one
                permutation q(w);
                std::vector<int> want = lst;
                for (int i = 0; i < 7; ++i) {
                    q.delete_rank(8);
                    want.erase(want.begin() + 8);
                }
                std::string why;
                rp.evaluations++;
                if (!perm_valid(q.get_body(), want, why)) rp.fail("perm:split_left", why, std::to_string(w));
            }
        }
    }
    for (size_t k = 0; k <= 15; ++k) {
        permutation p(0x123456789abcdefULL);
        p.split_dest(k);
        std::vector<int> want(k, 0);
        std::iota(want.begin(), want.end(), 0);
        std::string why;
        rp.evaluations++;
        if (!perm_valid(p.get_body(), want, why)) rp.fail("perm:split_dest", why, std::to_string(k));
    }
    rp.samples.push_back("n = 6..15: identity, reverse, rotations and mirrored rotations; every rank x every free slot; split sequence");
}

int main(int argc, char** argv) {
    hm::Args a = hm::parse(argc, argv);
    hm::install_crash_reporter("ykenum");
    std::string part = a.extra.empty() ? "perm" : a.extra[0];
    bool quick = a.tier == "quick";
    Report rp;
    rp.part = part + (a.nshards > 1 ? "/shard" + std::to_string(a.shard) : "");
    hm::crash_part(rp.part, "enum");
    double t0 = ykmc::mono_now();
    if (part == "putinfo") part_putinfo(rp, quick, a.shard, a.nshards);
    else if (part == "values") part_values(rp, quick, a.shard, a.nshards);
    else if (part == "version") {
        if (a.shard == 0) part_version(rp, quick);
    } else if (part == "compare") part_compare(rp, quick, a.shard, a.nshards);
    else if (part == "perm") {
        if (a.shard == 0) part_perm(rp, quick);
    }
    rp.wall = ykmc::mono_now() - t0;
    if (rp.evaluations > 0 || a.shard == 0) print(rp);
    return rp.viol.empty() ? 0 : 1;
}
