// E3 ykenum for C05: node-version sets collected by reads detect every later insert into the covered interval.
// Enumerates (tree, read, absent key of the covered interval); each case runs on a fresh replay of the tree:
// read, collect the set, insert the key, compare every recorded pair with the node's current stable version.
#include "../engine/hmain.h"
#include "../engine/ykc.h"

using namespace yakushima;
using ykc::Model;

static const char* kSt = "s";
static const char* ep_name(scan_endpoint e) { return e == scan_endpoint::INF ? "INF" : (e == scan_endpoint::INCLUSIVE ? "INC" : "EXC"); }
static scan_endpoint ep_parse(const std::string& s) { return s == "INF" ? scan_endpoint::INF : (s == "INC" ? scan_endpoint::INCLUSIVE : scan_endpoint::EXCLUSIVE); }

static bool in_range(const std::string& k, const std::string& l, scan_endpoint le, const std::string& r, scan_endpoint re) {
    if (le == scan_endpoint::INCLUSIVE && k < l) return false;
    if (le == scan_endpoint::EXCLUSIVE && k <= l) return false;
    if (re == scan_endpoint::INCLUSIVE && k > r) return false;
    if (re == scan_endpoint::EXCLUSIVE && k >= r) return false;
    return true;
}
static bool bad_range(const std::string& l, scan_endpoint le, const std::string& r, scan_endpoint re) {
    bool l_inf = le == scan_endpoint::INF, r_inf = re == scan_endpoint::INF;
    if (!l_inf && !r_inf && r < l) return true;
    if (!l_inf && !r_inf && l == r && (le == scan_endpoint::EXCLUSIVE || re == scan_endpoint::EXCLUSIVE)) return true;
    if (r.empty() && re == scan_endpoint::EXCLUSIVE) return true;
    return false;
}
static std::string hexs(const std::string& s) {
    static const char* d = "0123456789abcdef";
    std::string o;
    for (unsigned char c : s) {
        o.push_back(d[c >> 4]);
        o.push_back(d[c & 15]);
    }
    return o;
}
static std::string unhex(const std::string& h) {
    std::string o;
    for (size_t i = 0; i + 1 < h.size(); i += 2) o.push_back(char(std::stoi(h.substr(i, 2), nullptr, 16)));
    return o;
}

struct TreeSpec {
    std::string name;
    std::vector<std::string> keys, removes;
    std::vector<std::string> endpoints;  // scan endpoints
    std::vector<std::string> candidates; // keys to insert (absent ones are used)
};

struct Built {
    tree_instance* ti = nullptr;
    Token tk{};
    Model m;
};
static Built build(const TreeSpec& t) {
    Built b;
    ykc::sequential_teardown_mode();
    ykc::reset_library_statics();
    create_storage(kSt);
    find_storage(kSt, &b.ti);
    enter(b.tk);
    for (auto& k : t.keys) {
        std::string v = ykc::val_of(k);
        ykc::t_put(b.tk, b.ti, k, v);
        b.m[k] = v;
    }
    for (auto& k : t.removes) {
        ykc::t_remove(b.tk, b.ti, k);
        b.m.erase(k);
    }
    return b;
}
static void unbuild(Built& b) {
    leave(b.tk);
    destroy();
    ykc::drain_retired();
}

struct Read {
    int kind = 0; // 0 scan, 1 get-miss, 2 iscan
    std::string l, r;
    scan_endpoint le = scan_endpoint::INF, re = scan_endpoint::INF;
    size_t max = 0;
    bool r2l = false;
    int consume = -1; // iscan: number of entries consumed (-1 all)
};
static std::string read_str(const std::string& tree, const Read& rd, const std::string& ins) {
    return tree + ";" + std::to_string(rd.kind) + ";" + hexs(rd.l) + ";" + ep_name(rd.le) + ";" + hexs(rd.r) + ";" + ep_name(rd.re) + ";" +
           std::to_string(rd.max) + ";" + (rd.r2l ? "1" : "0") + ";" + std::to_string(rd.consume) + ";" + hexs(ins);
}

struct ReadResult {
    bool valid = false;                 // the read was accepted
    ykc::NvVec nv;
    std::vector<std::string> produced;  // keys produced, in production order
    bool complete = true;               // the whole interval was covered
};

static ReadResult do_read(Built& b, const Read& rd) {
    ReadResult rr;
    if (rd.kind == 0) {
        std::vector<ykc::ScanTuple> out;
        status st = ykc::t_scan(b.ti, rd.l, rd.le, rd.r, rd.re, out, &rr.nv, rd.max, rd.r2l);
        if (st != status::OK) return rr;
        rr.valid = true;
        for (auto& t : out) rr.produced.push_back(std::get<0>(t));
        if (rd.r2l) rr.complete = false;
        if (rd.max != 0 && out.size() >= rd.max) rr.complete = false;
    } else if (rd.kind == 1) {
        std::pair<node_version64_body, node_version64*> cv{};
        auto g = ykc::t_get(b.ti, rd.l, &cv);
        if (g.st != status::WARN_NOT_EXIST) return rr;
        rr.valid = true;
        if (cv.second != nullptr) rr.nv.emplace_back(cv.first, cv.second);
    } else {
        iscan_context* ctx = nullptr;
        void* val = nullptr;
        auto cb = [&rr](node_version64* p, node_version64_body v) {
            rr.nv.emplace_back(v, p);
            return false;
        };
        std::string ll = rd.l;
        scan_endpoint lle = rd.le;
        if (lle == scan_endpoint::INF) {
            ll = "";
            lle = scan_endpoint::INCLUSIVE;
        }
        status st = iscan_open(b.ti, ll, lle, rd.r, rd.re, ctx, val, cb, rd.r2l, false);
        rr.valid = true;
        int n = 0;
        while (st == status::OK) {
            rr.produced.push_back(ctx->full_key());
            n++;
            if (rd.consume >= 0 && n >= rd.consume) {
                rr.complete = false;
                break;
            }
            st = iscan_next(ctx, val, cb);
        }
        if (ctx != nullptr) iscan_close(ctx);
    }
    return rr;
}

// is key k inside what the read covered?
static bool covered(const Read& rd, const ReadResult& rr, const std::string& k) {
    if (rd.kind == 1) return k == rd.l;
    if (!in_range(k, rd.l, rd.le, rd.r, rd.re)) return false;
    if (rr.complete) return true;
    if (rr.produced.empty()) return false; // consumed nothing: nothing is promised
    const std::string& last = rr.produced.back();
    if (rd.r2l) return k > last;
    return k < last;
}

struct Report {
    std::string part;
    long evaluations = 0, nontrivial = 0, reads = 0;
    std::vector<std::string> samples;
    std::vector<std::pair<std::string, std::string>> viol;
    std::vector<std::string> repro;
    std::map<std::string, long> symptom_count;
    double wall = 0;
};
static void print(const Report& r) {
    printf("{\"engine\":\"ykenum\",\"part\":\"%s\",\"scenario\":\"%s\",\"sigclass\":\"nvset\",\"states\":%ld,\"transitions\":%ld,\"evaluations\":%ld,"
           "\"nontrivial\":%ld,\"exhaustive\":true,\"wall\":%.2f,\"samples\":[",
           hm::jesc(r.part).c_str(), hm::jesc(r.part).c_str(), r.reads, r.evaluations, r.evaluations, r.nontrivial, r.wall);
    for (size_t i = 0; i < r.samples.size(); ++i) printf("%s\"%s\"", i != 0 ? "," : "", hm::jesc(r.samples[i]).c_str());
    printf("],\"symptom_counts\":{");
    bool first = true;
    for (auto& kv : r.symptom_count) {
        printf("%s\"%s\":%ld", first ? "" : ",", hm::jesc(kv.first).c_str(), kv.second);
        first = false;
    }
    printf("},\"violations\":[");
    for (size_t i = 0; i < r.viol.size(); ++i) {
        printf("%s{\"symptom\":\"%s\",\"detail\":\"%s\",\"repro\":\"%s\"}", i != 0 ? "," : "", hm::jesc(r.viol[i].first).c_str(),
               hm::jesc(r.viol[i].second).c_str(), hm::jesc(r.repro[i]).c_str());
    }
    printf("]}\n");
    fflush(stdout);
}

// classify where the read ended, for the violation signature
static std::string classify(const Read& rd, const ReadResult& rr, bool empty_set) {
    std::string c = rd.kind == 0 ? "scan" : (rd.kind == 1 ? "getmiss" : "iscan");
    if (rd.r2l) c += "_r2l";
    if (!rr.complete) c += "_partial";
    if (empty_set) {
        // degenerate coverage: the read produced exactly the key its inclusive start (in scan direction) names and stopped there,
        // so the covered interval [k, k] cannot receive any new key
        const std::string& start = rd.r2l ? rd.r : rd.l;
        scan_endpoint se = rd.r2l ? rd.re : rd.le;
        bool point_hit = rd.kind == 2 && rr.produced.size() == 1 && se == scan_endpoint::INCLUSIVE && rr.produced[0] == start &&
                         (!rr.complete || (rd.l == rd.r && rd.le == scan_endpoint::INCLUSIVE && rd.re == scan_endpoint::INCLUSIVE));
        c += point_hit ? ":empty_set_point_hit" : ":empty_set";
    } else {
        c += ":insert_undetected";
    }
    return c;
}

// one case: fresh tree, read, insert, compare. Returns "" or the symptom
static std::string one_case(const TreeSpec& t, const Read& rd, const std::string* ins, std::string& detail, bool& was_covered) {
    Built b = build(t);
    std::string sym;
    ReadResult rr = do_read(b, rd);
    was_covered = false;
    if (rr.valid) {
        if (rr.nv.empty() && b.ti->root_ != nullptr) {
            sym = classify(rd, rr, true);
            detail = "the read collected no node version at all";
        } else if (ins != nullptr && b.m.count(*ins) == 0 && covered(rd, rr, *ins)) {
            was_covered = true;
            std::string v = ykc::val_of(*ins, 1);
            status st = ykc::t_put(b.tk, b.ti, *ins, v, true);
            if (st != status::OK) {
                sym = "insert_failed";
                detail = std::string("unique insert of an absent key returned ") + ykc::st_name(st);
            } else {
                bool stale = false;
                for (auto& pr : rr.nv) {
                    if (pr.second->get_stable_version() != pr.first) stale = true;
                }
                if (!stale) {
                    sym = classify(rd, rr, false);
                    detail = "insert of " + ykc::hex(*ins) + " left all " + std::to_string(rr.nv.size()) + " collected node versions unchanged; produced [";
                    for (auto& k : rr.produced) detail += ykc::hex(k) + " ";
                    detail += "]";
                }
            }
        }
    }
    unbuild(b);
    return sym;
}

static void add_variants(std::set<std::string>& e, const std::string& k) {
    e.insert(k);
    if (!k.empty()) {
        e.insert(k.substr(0, k.size() - 1));
        std::string a = k;
        a.back() = char(static_cast<unsigned char>(a.back()) + 1);
        e.insert(a);
    }
    e.insert(k + std::string("\0", 1));
    if (k.size() > 8) e.insert(k.substr(0, 8));
    if (k.size() > 16) e.insert(k.substr(0, 16));
}

static std::vector<TreeSpec> make_trees(bool quick) {
    std::vector<TreeSpec> v;
    auto shapes = ykc::all_shapes();
    {
        ykc::Shape s;
        s.name = "LINKSONLY";
        s.inserts = {"AAAAAAAAx", "BBBBBBBBx", "CCCCCCCCx"};
        s.pal = {{"a", "B"}, {"b", "BBBBBBBB"}, {"c", "BBBBBBBBy"}, {"d", "D"}, {"e", "BBBBBBBBa"}};
        shapes.push_back(s);
    }
    {
        ykc::Shape s;
        s.name = "EMPTY";
        s.pal = {{"a", "a"}, {"b", "ABCDEFGHx"}};
        shapes.push_back(s);
    }
    {
        // I3 with full nodes 8 | 8 | 8
        ykc::Shape s;
        s.name = "I3_8_8_8";
        for (int i = 1; i <= 24; ++i) s.inserts.push_back(ykc::k2(i));
        s.pal = {};
        shapes.push_back(s);
    }
    for (auto& sh : shapes) {
        if (sh.name == "NOROOT") continue;
        TreeSpec t;
        t.name = sh.name;
        t.keys = sh.inserts;
        t.removes = sh.removes;
        std::set<std::string> ks(sh.inserts.begin(), sh.inserts.end());
        for (auto& r : sh.removes) ks.erase(r);
        std::vector<std::string> kv(ks.begin(), ks.end());
        std::set<std::string> e, c;
        std::set<size_t> pick = {0, 7, 8, kv.size() / 2, kv.size() - 1};
        for (size_t i : pick) {
            if (i < kv.size()) add_variants(e, kv[i]);
        }
        e.insert("");
        for (auto& kvp : sh.pal) {
            e.insert(kvp.second);
            c.insert(kvp.second);
        }
        for (auto& k : kv) {
            c.insert(k + "5");
            if (!k.empty()) c.insert(k.substr(0, k.size() - 1));
            if (k.size() > 8) {
                c.insert(k.substr(0, 8));
                c.insert(k.substr(0, 8) + std::string("\0", 1));
                c.insert(k.substr(0, 7));
            }
        }
        c.insert("");
        c.insert("00");
        c.insert("zzzz");
        t.endpoints.assign(e.begin(), e.end());
        t.candidates.assign(c.begin(), c.end());
        if (quick) {
            if (t.endpoints.size() > 10) {
                std::vector<std::string> s2;
                for (size_t i = 0; i < t.endpoints.size(); i += (t.endpoints.size() + 9) / 10) s2.push_back(t.endpoints[i]);
                t.endpoints = s2;
            }
            if (t.candidates.size() > 14) {
                std::vector<std::string> s2;
                for (size_t i = 0; i < t.candidates.size(); i += (t.candidates.size() + 13) / 14) s2.push_back(t.candidates[i]);
                t.candidates = s2;
            }
        } else if (t.candidates.size() > 40) {
            std::vector<std::string> s2;
            for (size_t i = 0; i < t.candidates.size(); i += (t.candidates.size() + 39) / 40) s2.push_back(t.candidates[i]);
            t.candidates = s2;
        }
        v.push_back(t);
    }
    return v;
}

int main(int argc, char** argv) {
    hm::Args a = hm::parse(argc, argv);
    hm::install_crash_reporter("ykenum");
    bool quick = a.tier == "quick";
    if (!a.replay_scenario.empty()) {
        std::vector<std::string> f;
        std::istringstream in(a.replay_scenario);
        std::string tok;
        while (std::getline(in, tok, ';')) f.push_back(tok);
        while (f.size() < 10) f.emplace_back("");
        auto all = make_trees(false);
        for (auto& t : all) {
            if (t.name != f[0]) continue;
            Read rd;
            rd.kind = atoi(f[1].c_str());
            rd.l = unhex(f[2]);
            rd.le = ep_parse(f[3]);
            rd.r = unhex(f[4]);
            rd.re = ep_parse(f[5]);
            rd.max = size_t(atoi(f[6].c_str()));
            rd.r2l = f[7] == "1";
            rd.consume = atoi(f[8].c_str());
            std::string ins = unhex(f[9]);
            std::string detail;
            bool cov = false;
            std::string s1 = one_case(t, rd, &ins, detail, cov);
            std::string d2;
            std::string s2 = one_case(t, rd, &ins, d2, cov);
            printf("{\"replay\":\"%s\",\"symptom\":\"%s\",\"detail\":\"%s\",\"deterministic\":%s}\n", hm::jesc(a.replay_scenario).c_str(),
                   hm::jesc(s1).c_str(), hm::jesc(detail).c_str(), s1 == s2 ? "true" : "false");
            if (s1 != s2) return 2;
            return s1.empty() ? 0 : 1;
        }
        return 2;
    }
    auto trees = make_trees(quick);
    const scan_endpoint eps[3] = {scan_endpoint::INCLUSIVE, scan_endpoint::EXCLUSIVE, scan_endpoint::INF};
    int idx = 0;
    bool any = false;
    for (auto& t : trees) {
        if (!a.only.empty() && t.name.find(a.only) == std::string::npos) continue;
        if ((idx++ % a.nshards) != a.shard) continue;
        Report rp;
        rp.part = "nvset/" + t.name;
        hm::crash_part(rp.part, "nvset");
        double s0 = ykmc::mono_now();
        std::vector<Read> reads;
        for (auto& l : t.endpoints) {
            for (auto le : eps) {
                for (auto& r : t.endpoints) {
                    for (auto re : eps) {
                        if (bad_range(l, le, r, re)) continue;
                        if (le == scan_endpoint::INF && !l.empty()) continue; // same as ("", INF)
                        if (re == scan_endpoint::INF && !r.empty()) continue;
                        for (size_t max : {0u, 1u, 2u}) {
                            Read rd;
                            rd.kind = 0;
                            rd.l = l;
                            rd.le = le;
                            rd.r = r;
                            rd.re = re;
                            rd.max = max;
                            reads.push_back(rd);
                        }
                        if (re == scan_endpoint::INF) {
                            Read rd;
                            rd.kind = 0;
                            rd.l = l;
                            rd.le = le;
                            rd.re = re;
                            rd.max = 1;
                            rd.r2l = true;
                            reads.push_back(rd);
                        }
                        for (int r2l = 0; r2l < 2; ++r2l) {
                            for (int consume : {-1, 1, 2, 4}) {
                                Read rd;
                                rd.kind = 2;
                                rd.l = l;
                                rd.le = le;
                                rd.r = r;
                                rd.re = re;
                                rd.r2l = r2l != 0;
                                rd.consume = consume;
                                reads.push_back(rd);
                            }
                        }
                    }
                }
            }
        }
        for (auto& k : t.candidates) {
            Read rd;
            rd.kind = 1;
            rd.l = k;
            reads.push_back(rd);
        }
        rp.reads = long(reads.size());
        for (auto& rd : reads) {
            bool any_cov = false;
            auto run = [&](const std::string* ins) {
                std::string detail;
                bool cov = false;
                auto describe = [&]() { return read_str(t.name, rd, ins != nullptr ? *ins : std::string()); };
                hm::CrashScope crash_scope(describe);
                std::string sym = one_case(t, rd, ins, detail, cov);
                rp.evaluations++;
                if (cov) {
                    rp.nontrivial++;
                    any_cov = true;
                }
                if (!sym.empty()) {
                    any = true;
                    if (rp.symptom_count[sym]++ == 0 && rp.viol.size() < 12) {
                        std::string rs = read_str(t.name, rd, ins != nullptr ? *ins : std::string());
                        rp.viol.emplace_back("nvset:" + sym, detail + " || case " + rs);
                        rp.repro.push_back(rs);
                    }
                }
                return sym;
            };
            if (rd.kind == 1) {
                run(&rd.l);
                continue;
            }
            // emptiness of the set does not depend on the inserted key: check it once
            std::string s = run(nullptr);
            if (!s.empty()) continue;
            for (auto& k : t.candidates) run(&k);
            (void) any_cov;
        }
        if (!reads.empty()) rp.samples.push_back(read_str(t.name, reads[reads.size() / 3], t.candidates.empty() ? "" : t.candidates[0]));
        rp.wall = ykmc::mono_now() - s0;
        print(rp);
    }
    return any ? 1 : 0;
}
