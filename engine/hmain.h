// Shared main() plumbing for E1 harness binaries: argument parsing, scenario iteration, JSON lines.
#pragma once
#include <csignal>
#include <cstdio>
#include <cstdlib>
#include <cstring>
#include <functional>
#include <memory>
#include <string>
#include <vector>

#include <sched.h>
#include <unistd.h>

#include "../engine/sched.h"

namespace hm {

inline std::string jesc(const std::string& s) {
    std::string o;
    for (unsigned char c : s) {
        if (c == '"' || c == '\\') {
            o.push_back('\\');
            o.push_back(char(c));
        } else if (c < 0x20 || c > 0x7e) {
            char b[8];
            snprintf(b, sizeof(b), "\\u%04x", c);
            o += b;
        } else {
            o.push_back(char(c));
        }
    }
    return o;
}

// ---------------------------------------------------------------------------------------------------------------------------
// Crash reporter for the engines that evaluate their cases in-process (ykseq, ykenum): a fatal signal raised by the library while
// a case is being evaluated is reported as a violation of that case (JSON line with a replayable "repro"), not as a dead job.
// The case description is produced lazily (only in the handler) through a CrashScope that points at a callable on the stack.
// ---------------------------------------------------------------------------------------------------------------------------
struct CrashState {
    const char* engine = "";
    char part[256] = {0};
    char sigclass[64] = {0};
    std::string (*fn)(const void*) = nullptr;
    const void* ctx = nullptr;
};
inline CrashState& crash_state() {
    static CrashState c;
    return c;
}
struct CrashScope {
    std::string (*prev_fn)(const void*);
    const void* prev_ctx;
    template<class F>
    explicit CrashScope(const F& f) {
        CrashState& c = crash_state();
        prev_fn = c.fn;
        prev_ctx = c.ctx;
        c.ctx = &f;
        c.fn = [](const void* p) -> std::string { return (*static_cast<const F*>(p))(); };
    }
    ~CrashScope() {
        CrashState& c = crash_state();
        c.fn = prev_fn;
        c.ctx = prev_ctx;
    }
    CrashScope(const CrashScope&) = delete;
    CrashScope& operator=(const CrashScope&) = delete;
};
inline void crash_part(const std::string& part, const std::string& sigclass) {
    CrashState& c = crash_state();
    snprintf(c.part, sizeof(c.part), "%s", part.c_str());
    snprintf(c.sigclass, sizeof(c.sigclass), "%s", sigclass.c_str());
}
inline void crash_handler(int sig) {
    static volatile sig_atomic_t entered = 0;
    if (entered != 0) _exit(3);
    entered = 1;
    alarm(10); // describing the case allocates: if the heap is what broke, die with SIGALRM instead of hanging
    CrashState& c = crash_state();
    std::string repro = c.fn != nullptr ? c.fn(c.ctx) : std::string();
    static char buf[16384];
    int n = snprintf(buf, sizeof(buf),
                     "\n{\"engine\":\"%s\",\"part\":\"%s\",\"scenario\":\"%s\",\"sigclass\":\"%s\",\"states\":0,\"transitions\":0,\"evaluations\":1,"
                     "\"exhaustive\":false,\"violations\":[{\"symptom\":\"crash:signal%d\",\"detail\":\"the library raised signal %d while this case was "
                     "evaluated || case %s\",\"repro\":\"%s\"}]}\n",
                     c.engine, jesc(c.part).c_str(), jesc(c.part).c_str(), jesc(c.sigclass).c_str(), sig, sig, jesc(repro).c_str(), jesc(repro).c_str());
    if (n > 0) {
        ssize_t w = write(1, buf, size_t(n) < sizeof(buf) ? size_t(n) : sizeof(buf) - 1);
        (void)w;
    }
    _exit(1);
}
inline void install_crash_reporter(const char* engine) {
    crash_state().engine = engine;
    for (int sig : {SIGSEGV, SIGBUS, SIGABRT, SIGFPE, SIGILL}) signal(sig, crash_handler);
}

struct Args {
    std::string tier = "quick";
    int bound = -1;           // -1: harness default for the tier
    int shard = 0, nshards = 1;
    double deadline_s = 0;    // relative seconds from start
    std::string only;         // substring filter on scenario names
    std::string skip;         // scenarios whose name contains this are left out
    std::string replay_scenario;
    std::string schedule;
    bool list = false;
    bool trace = false;
    bool relevance = false;
    bool no_isolate = false;
    bool stateless = false;
    long max_exec = -1;
    int subshard = 0, nsubshards = 1; // partition inside one scenario (first-deviation subtrees)
    std::string oracle = "all";
    int stop_after = 1;
    std::vector<std::string> extra;
};

inline Args parse(int argc, char** argv) {
    Args a;
    for (int i = 1; i < argc; ++i) {
        std::string s = argv[i];
        auto next = [&]() -> std::string { return i + 1 < argc ? std::string(argv[++i]) : std::string(); };
        if (s == "--tier") a.tier = next();
        else if (s == "--bound") a.bound = atoi(next().c_str());
        else if (s == "--shard") {
            std::string v = next();
            sscanf(v.c_str(), "%d/%d", &a.shard, &a.nshards);
        } else if (s == "--subshard") {
            std::string v = next();
            sscanf(v.c_str(), "%d/%d", &a.subshard, &a.nsubshards);
        } else if (s == "--deadline") a.deadline_s = atof(next().c_str());
        else if (s == "--only") a.only = next();
        else if (s == "--skip") a.skip = next();
        else if (s == "--replay") a.replay_scenario = next();
        else if (s == "--schedule") a.schedule = next();
        else if (s == "--list") a.list = true;
        else if (s == "--trace") a.trace = true;
        else if (s == "--relevance") a.relevance = true;
        else if (s == "--no-isolate") a.no_isolate = true;
        else if (s == "--stateless") a.stateless = true;
        else if (s == "--max-exec") a.max_exec = atol(next().c_str());
        else if (s == "--oracle") a.oracle = next();
        else if (s == "--stop-after") a.stop_after = atoi(next().c_str());
        else a.extra.push_back(s);
    }
    return a;
}

struct Scenario {
    std::string name;
    std::string sigclass;                 // coarse class used in violation signatures
    int bound_quick = 2, bound_thorough = 3;
    std::function<std::unique_ptr<ykmc::Harness>()> make;
    bool quick = true;                    // part of the quick tier
    unsigned cls_mask = 0xffffffffu;
    bool stateful = false;
    long watchdog = 400000;
    bool relevance = false;
    bool thorough_single_pass = false;    // thorough tier: run only the final bound (stateful, effectively unbounded)
};

inline void print_report(const char* harness, const Scenario& sc, int bound, const ykmc::RunReport& rr, double wall) {
    const ykmc::Stats& s = rr.stats;
    printf("{\"harness\":\"%s\",\"scenario\":\"%s\",\"sigclass\":\"%s\",\"bound\":%d,\"bound_completed\":%d,\"executions\":%ld,"
           "\"decisions\":%ld,\"states\":%ld,\"nontrivial\":%ld,\"outcomes\":%ld,\"spurious_blocks\":%ld,\"pruned\":%ld,"
           "\"max_decisions\":%d,\"max_points\":%ld,\"capped\":%s,\"wall\":%.3f,\"relevance_rounds\":%d,\"relevant_sites\":%ld,",
           harness, jesc(sc.name).c_str(), jesc(sc.sigclass).c_str(), bound, s.bound_completed, s.executions, s.decisions, s.new_nodes,
           s.nontrivial, s.distinct_outcomes, s.spurious_blocks, s.pruned_states, s.max_decisions, s.max_points,
           s.capped ? "true" : "false", wall, s.relevance_rounds, s.relevant_sites);
    printf("\"exec_per_bound\":[");
    for (size_t i = 0; i < s.exec_per_bound.size(); ++i) printf("%s%ld", i != 0 ? "," : "", s.exec_per_bound[i]);
    printf("],\"sample_outcomes\":[");
    for (size_t i = 0; i < s.sample_outcomes.size(); ++i) printf("%s\"%s\"", i != 0 ? "," : "", jesc(s.sample_outcomes[i]).c_str());
    printf("],\"sample_schedules\":[");
    for (size_t i = 0; i < s.sample_schedules.size(); ++i) printf("%s\"%s\"", i != 0 ? "," : "", jesc(s.sample_schedules[i]).c_str());
    printf("],\"violations\":[");
    for (size_t i = 0; i < rr.violations.size(); ++i) {
        const ykmc::Violation& v = rr.violations[i];
        printf("%s{\"verdict\":%d,\"symptom\":\"%s\",\"detail\":\"%s\",\"schedule\":\"%s\",\"bound\":%d}", i != 0 ? "," : "", v.verdict,
               jesc(v.symptom).c_str(), jesc(v.detail).c_str(), ykmc::sched_to_string(v.schedule).c_str(), v.bound);
    }
    printf("]}\n");
    fflush(stdout);
}

// runs the scenarios selected by the arguments; returns process exit code
inline int run_main(const char* harness, const std::vector<Scenario>& all, const Args& a) {
    double t0 = ykmc::mono_now();
    if (a.list) {
        for (auto& sc : all) printf("%s\t%s\t%s\n", sc.name.c_str(), sc.sigclass.c_str(), sc.quick ? "quick" : "thorough");
        return 0;
    }
    if (!a.replay_scenario.empty()) {
        for (auto& sc : all) {
            if (sc.name != a.replay_scenario) continue;
            auto h = sc.make();
            ykmc::Options o;
            o.cls_mask = sc.cls_mask;
            o.watchdog = sc.watchdog * 10;
            o.trace = a.trace;
            std::string tr;
            auto sched = ykmc::sched_from_string(a.schedule);
            ykmc::ExecResult r1 = ykmc::replay(*h, o, sched, a.trace ? &tr : nullptr);
            ykmc::ExecResult r2 = ykmc::replay(*h, o, sched, nullptr);
            bool same = r1.verdict == r2.verdict && r1.symptom == r2.symptom && r1.outcome == r2.outcome;
            printf("{\"replay\":\"%s\",\"schedule\":\"%s\",\"verdict\":%d,\"symptom\":\"%s\",\"detail\":\"%s\",\"outcome\":\"%s\","
                   "\"deterministic\":%s}\n",
                   jesc(sc.name).c_str(), a.schedule.c_str(), r1.verdict, jesc(r1.symptom).c_str(), jesc(r1.detail).c_str(),
                   jesc(r1.outcome).c_str(), same ? "true" : "false");
            if (!same) return 2;
            return r1.verdict == ykmc::V_OK ? 0 : 1;
        }
        fprintf(stderr, "unknown scenario %s\n", a.replay_scenario.c_str());
        return 2;
    }
    int idx = 0;
    bool any_violation = false;
    for (auto& sc : all) {
        if (!a.only.empty() && sc.name.find(a.only) == std::string::npos) continue;
        if (!a.skip.empty() && sc.name.find(a.skip) != std::string::npos) continue;
        if (a.tier == "quick" && !sc.quick) continue;
        int my = idx++;
        if (my % a.nshards != a.shard) continue;
        if (a.deadline_s > 0 && ykmc::mono_now() - t0 > a.deadline_s) {
            printf("{\"harness\":\"%s\",\"scenario\":\"%s\",\"skipped\":\"deadline\"}\n", harness, jesc(sc.name).c_str());
            continue;
        }
        auto h = sc.make();
        ykmc::Options o;
        o.bound = a.bound >= 0 ? a.bound : (a.tier == "quick" ? sc.bound_quick : sc.bound_thorough);
        o.cls_mask = sc.cls_mask;
        o.stateful = sc.stateful && !a.stateless;
        o.watchdog = sc.watchdog;
        o.isolate = !a.no_isolate;
        o.max_exec = a.max_exec;
        o.shard = a.subshard;
        o.nshards = a.nsubshards;
        o.relevance = a.relevance || sc.relevance;
        o.stop_after_violations = a.stop_after;
        if (a.tier != "quick" && sc.thorough_single_pass && a.bound < 0) o.iterate_bounds = false;
        if (a.deadline_s > 0) o.deadline = t0 + a.deadline_s;
        double s0 = ykmc::mono_now();
        ykmc::RunReport rr = ykmc::explore(*h, o);
        print_report(harness, sc, o.bound, rr, ykmc::mono_now() - s0);
        if (!rr.violations.empty()) any_violation = true;
    }
    return any_violation ? 1 : 0;
}

} // namespace hm
