#include "alloc.h"

#include <atomic>
#include <cstdio>
#include <cstdlib>
#include <cstring>
#include <map>
#include <new>

namespace ykalloc {

template<class T>
struct MallocAlloc {
    using value_type = T;
    MallocAlloc() = default;
    template<class U>
    MallocAlloc(const MallocAlloc<U>&) {} // NOLINT
    T* allocate(size_t n) { return static_cast<T*>(malloc(n * sizeof(T))); }
    void deallocate(T* p, size_t) { free(p); }
    template<class U>
    bool operator==(const MallocAlloc<U>&) const { return true; }
    template<class U>
    bool operator!=(const MallocAlloc<U>&) const { return false; }
};

struct Block {
    size_t size;
    size_t align;
    uint32_t id;
    bool live;
    bool checked = false;
};

using Table = std::map<uintptr_t, Block, std::less<uintptr_t>, MallocAlloc<std::pair<const uintptr_t, Block>>>;

static std::atomic_flag g_lock = ATOMIC_FLAG_INIT;
static Table* g_table = nullptr;
static bool g_tracking = false;
static uint32_t g_seq = 0;
static long g_allocs = 0, g_frees = 0;
static std::vector<std::string>* g_errors = nullptr;
bool passthrough_free = false;

struct Guard {
    Guard() {
        while (g_lock.test_and_set(std::memory_order_acquire)) {}
    }
    ~Guard() { g_lock.clear(std::memory_order_release); }
};

static Table& table() {
    if (g_table == nullptr) {
        void* m = malloc(sizeof(Table));
        g_table = new (m) Table();
    }
    return *g_table;
}

static std::vector<std::string>& errs() {
    if (g_errors == nullptr) {
        void* m = malloc(sizeof(std::vector<std::string>));
        g_errors = new (m) std::vector<std::string>();
    }
    return *g_errors;
}

void begin_tracking() {
    Guard g;
    Table& t = table();
    for (auto& kv : t) {
        if (!kv.second.live) free(reinterpret_cast<void*>(kv.first)); // NOLINT
    }
    // live blocks of an earlier region are forgotten (they belong to code outside any region)
    t.clear();
    g_seq = 0;
    g_allocs = 0;
    g_frees = 0;
    g_tracking = true;
}

// freed node / value blocks stay poisoned until the next region starts: any other byte in one of them is a write after free
static void verify_quarantine_locked() {
    for (auto& kv : table()) {
        Block& b = kv.second;
        if (b.live || b.align == 0 || b.checked) continue;
        const auto* p = reinterpret_cast<const unsigned char*>(kv.first); // NOLINT
        for (size_t i = 0; i < b.size; ++i) {
            if (p[i] != kPoison) {
                b.checked = true; // report once
                char buf[200];
                snprintf(buf, sizeof(buf), "write after free: block #%u (size %zu, align %zu) was modified at offset %zu after it was released", b.id, b.size, b.align, i);
                // the error list allocates and frees through the hooks below: drop the lock and the tracking flag meanwhile
                // (the strings are untracked, so the table is not modified while it is being iterated)
                g_lock.clear(std::memory_order_release);
                bool t = g_tracking;
                g_tracking = false;
                errs().emplace_back(buf);
                g_tracking = t;
                while (g_lock.test_and_set(std::memory_order_acquire)) {}
                break;
            }
        }
    }
}

void verify_quarantine() {
    if (passthrough_free) return;
    Guard g;
    verify_quarantine_locked();
}

void end_tracking() {
    Guard g;
    if (!passthrough_free) verify_quarantine_locked();
    g_tracking = false;
}

bool tracking() { return g_tracking; }

Info lookup(const void* p) {
    Guard g;
    Info r;
    Table& t = table();
    auto a = reinterpret_cast<uintptr_t>(p); // NOLINT
    auto it = t.upper_bound(a);
    if (it == t.begin()) return r;
    --it;
    if (a >= it->first && a < it->first + (it->second.size == 0 ? 1 : it->second.size)) {
        r.base = reinterpret_cast<const void*>(it->first); // NOLINT
        r.size = it->second.size;
        r.align = it->second.align;
        r.id = it->second.id;
        r.live = it->second.live;
        r.found = true;
    }
    return r;
}

long live_aligned() {
    Guard g;
    long n = 0;
    for (auto& kv : table()) {
        if (kv.second.live && kv.second.align != 0) n++;
    }
    return n;
}

std::vector<Info> live_aligned_list() {
    std::vector<Info> v;
    Guard g;
    for (auto& kv : table()) {
        if (kv.second.live && kv.second.align != 0) {
            Info r;
            r.base = reinterpret_cast<const void*>(kv.first); // NOLINT
            r.size = kv.second.size;
            r.align = kv.second.align;
            r.id = kv.second.id;
            r.live = true;
            r.found = true;
            v.push_back(r);
        }
    }
    return v;
}

long live_plain_of_size(size_t size) {
    Guard g;
    long n = 0;
    for (auto& kv : table()) {
        if (kv.second.live && kv.second.align == 0 && kv.second.size == size) n++;
    }
    return n;
}

long total_allocs() { return g_allocs; }
long total_frees() { return g_frees; }
const std::vector<std::string>& errors() { return errs(); }
void clear_errors() {
    // the strings are released through operator delete, which takes the lock itself: destroy them outside of it
    std::vector<std::string> old;
    {
        Guard g;
        old.swap(errs());
    }
}

static void* do_alloc(size_t size, size_t align) {
    void* p = nullptr;
    size_t a = align < sizeof(void*) ? sizeof(void*) : align;
    if (align == 0) {
        p = malloc(size == 0 ? 1 : size);
    } else {
        if (posix_memalign(&p, a, size == 0 ? a : size) != 0) p = nullptr;
    }
    if (p == nullptr) throw std::bad_alloc();
    if (g_tracking) {
        Guard g;
        if (g_tracking) {
            Block b{size, align, g_seq++, true, false};
            table()[reinterpret_cast<uintptr_t>(p)] = b; // NOLINT
            g_allocs++;
        }
    }
    return p;
}

static void report(const char* what, void* p, size_t a, size_t b) {
    char buf[200];
    snprintf(buf, sizeof(buf), "%s ptr=%p (%zu vs %zu)", what, p, a, b);
    // called with the lock held; the vector uses operator new -> do_alloc -> would take the lock: use malloc'ed string path
    g_lock.clear(std::memory_order_release);
    bool t = g_tracking;
    g_tracking = false;
    errs().emplace_back(buf);
    g_tracking = t;
    while (g_lock.test_and_set(std::memory_order_acquire)) {}
}

static void do_free(void* p, size_t size, size_t align, bool sized, bool aligned) {
    if (p == nullptr) return;
    {
        Guard g;
        if (g_table != nullptr && !g_table->empty()) {
            auto it = g_table->find(reinterpret_cast<uintptr_t>(p)); // NOLINT
            if (it != g_table->end()) {
                Block& b = it->second;
                if (!b.live) {
                    report("double free", p, b.size, size);
                    return;
                }
                if (sized && size != b.size) report("sized delete mismatch", p, b.size, size);
                if (aligned && align != b.align) report("aligned delete mismatch", p, b.align, align);
                if (!aligned && b.align != 0) report("unaligned delete of aligned block", p, b.align, 0);
                g_frees++;
                if (passthrough_free) {
                    g_table->erase(it);
                } else {
                    b.live = false;
                    memset(p, kPoison, b.size);
                    return; // quarantined
                }
            }
        }
    }
    free(p);
}

} // namespace ykalloc

void* operator new(size_t n) { return ykalloc::do_alloc(n, 0); }
void* operator new[](size_t n) { return ykalloc::do_alloc(n, 0); }
void* operator new(size_t n, std::align_val_t a) { return ykalloc::do_alloc(n, static_cast<size_t>(a)); }
void* operator new[](size_t n, std::align_val_t a) { return ykalloc::do_alloc(n, static_cast<size_t>(a)); }
void* operator new(size_t n, const std::nothrow_t&) noexcept {
    try {
        return ykalloc::do_alloc(n, 0);
    } catch (...) { return nullptr; }
}
void* operator new[](size_t n, const std::nothrow_t&) noexcept {
    try {
        return ykalloc::do_alloc(n, 0);
    } catch (...) { return nullptr; }
}
void operator delete(void* p) noexcept { ykalloc::do_free(p, 0, 0, false, false); }
void operator delete[](void* p) noexcept { ykalloc::do_free(p, 0, 0, false, false); }
void operator delete(void* p, size_t n) noexcept { ykalloc::do_free(p, n, 0, true, false); }
void operator delete[](void* p, size_t n) noexcept { ykalloc::do_free(p, n, 0, true, false); }
void operator delete(void* p, std::align_val_t a) noexcept { ykalloc::do_free(p, 0, static_cast<size_t>(a), false, true); }
void operator delete[](void* p, std::align_val_t a) noexcept { ykalloc::do_free(p, 0, static_cast<size_t>(a), false, true); }
void operator delete(void* p, size_t n, std::align_val_t a) noexcept {
    ykalloc::do_free(p, n, static_cast<size_t>(a), true, true);
}
void operator delete[](void* p, size_t n, std::align_val_t a) noexcept {
    ykalloc::do_free(p, n, static_cast<size_t>(a), true, true);
}
void operator delete(void* p, const std::nothrow_t&) noexcept { ykalloc::do_free(p, 0, 0, false, false); }
void operator delete[](void* p, const std::nothrow_t&) noexcept { ykalloc::do_free(p, 0, 0, false, false); }
