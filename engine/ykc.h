// Common helpers on top of the real yakushima headers: thin API wrappers, reference model,
// structural walker (C08 oracle), canonical state string, seed shapes.
// Compiled with -fno-access-control: private members are read directly (never written, except
// the documented static resets in reset_library_statics()).
#pragma once
#include <algorithm>
#include <cstring>
#include <map>
#include <set>
#include <sstream>
#include <string>
#include <vector>

#include "kvs.h"

#include "alloc.h"

namespace ykc {

using namespace yakushima;
using Model = std::map<std::string, std::string>;

inline std::string hex(const std::string& s) {
    static const char* d = "0123456789abcdef";
    std::string o;
    bool printable = !s.empty();
    for (unsigned char c : s) {
        if (c < 0x21 || c > 0x7e || c == '\\' || c == '"') printable = false;
    }
    if (printable) return s;
    o = "x";
    for (unsigned char c : s) {
        o.push_back(d[c >> 4]);
        o.push_back(d[c & 15]);
    }
    return o;
}

inline const char* st_name(status s) { return to_string_view(s).data(); }

// ------------------------------------------------------------------------------------------
// thin wrappers over the tree_instance level API (values are byte strings)
// ------------------------------------------------------------------------------------------
inline status t_put(Token tk, tree_instance* ti, const std::string& k, const std::string& v, bool unique = false,
                    inserted_node_info* info = nullptr, char** created = nullptr, std::size_t align = 1) {
    char dummy = 0;
    const char* p = v.empty() ? &dummy : v.data();
    return put<char>(tk, ti, std::string_view(k), const_cast<char*>(p), unique, v.size(), created, // NOLINT
                     static_cast<value_align_type>(align), info);
}

struct GetResult {
    status st{};
    char* ptr = nullptr;
    std::size_t len = 0;
    std::string bytes;
    bool null_ok = false; // status OK but null pointer
};

inline GetResult t_get(tree_instance* ti, const std::string& k,
                       std::pair<node_version64_body, node_version64*>* cv = nullptr) {
    GetResult r;
    std::pair<char*, std::size_t> out{nullptr, 0};
    r.st = get<char>(ti, std::string_view(k), out, cv);
    if (r.st == status::OK) {
        r.ptr = out.first;
        r.len = out.second;
        if (out.first == nullptr) {
            r.null_ok = true;
        } else {
            r.bytes.assign(out.first, out.second);
        }
    }
    return r;
}

inline status t_remove(Token tk, tree_instance* ti, const std::string& k) { return remove(tk, ti, std::string_view(k)); }

using ScanTuple = std::tuple<std::string, char*, std::size_t>;
using NvVec = std::vector<std::pair<node_version64_body, node_version64*>>;

inline status t_scan(tree_instance* ti, const std::string& l, scan_endpoint le, const std::string& r, scan_endpoint re,
                     std::vector<ScanTuple>& out, NvVec* nv = nullptr, std::size_t max = 0, bool r2l = false) {
    return scan<char>(ti, std::string_view(l), le, std::string_view(r), re, out, nv, max, r2l);
}

// ------------------------------------------------------------------------------------------
// reference order on (slice, length) tuples and keys
// ------------------------------------------------------------------------------------------
inline std::string tuple_bytes(key_slice_type s, key_length_type l) {
    std::size_t n = l > 8 ? 8 : l;
    return std::string(reinterpret_cast<const char*>(&s), n); // NOLINT
}
// <0, 0, >0 : lexicographic on the bytes, then "has more" marker
inline int ref_cmp_tuple(key_slice_type sa, key_length_type la, key_slice_type sb, key_length_type lb) {
    std::string a = tuple_bytes(sa, la), b = tuple_bytes(sb, lb);
    int c = a.compare(b);
    if (c != 0) return c < 0 ? -1 : 1;
    int ma = la > 8 ? 1 : 0, mb = lb > 8 ? 1 : 0;
    return ma - mb;
}

// ------------------------------------------------------------------------------------------
// walker
// ------------------------------------------------------------------------------------------
struct WalkOut {
    std::vector<std::string> errors;
    std::vector<std::pair<std::string, std::string>> kv; // in walk (key) order
    std::vector<border_node*> borders;                   // all borders, all layers
    std::vector<base_node*> nodes;                       // all nodes
    std::set<const void*> node_set;
    int max_depth = 0;
    int layers = 0;
    std::string canon;                                   // canonical state string (if requested)
    bool want_canon = false;
    std::map<const void*, int> ids;
    std::map<const void*, int>* value_ids = nullptr;     // optional: value pointer -> id (canonical)
    bool values_are_trees = false;                       // storages tree: values are tree_instance objects
    bool inline_values = false;
};

struct Bound {
    bool has = false;
    key_slice_type s = 0;
    key_length_type l = 0;
};

inline void werr(WalkOut& w, const std::string& e) {
    if (w.errors.size() < 20) w.errors.push_back(e);
}

inline int node_id(WalkOut& w, const void* p) {
    if (p == nullptr) return -1;
    auto it = w.ids.find(p);
    if (it != w.ids.end()) return it->second;
    int id = int(w.ids.size());
    w.ids[p] = id;
    return id;
}

inline void walk_layer(WalkOut& w, base_node* root, base_node* parent_expect, const std::string& prefix, int layer);

inline void walk_node(WalkOut& w, base_node* n, base_node* parent_expect, bool is_layer_root, Bound lo, Bound hi,
                      const std::string& prefix, int depth, int layer, std::vector<border_node*>& leaves) {
    if (n == nullptr) {
        werr(w, "null node reached at depth " + std::to_string(depth));
        return;
    }
    if (!w.node_set.insert(n).second) {
        werr(w, "node reachable twice");
        return;
    }
    auto info = ykalloc::lookup(n);
    if (info.found && !info.live) {
        werr(w, "reachable node was already freed");
        return;
    }
    w.nodes.push_back(n);
    if (depth > w.max_depth) w.max_depth = depth;
    node_version64_body v = n->version_.body_.load();
    if (v.get_locked()) werr(w, "node left locked");
    if (v.get_inserting_deleting()) werr(w, "node left with inserting_deleting bit");
    if (v.get_splitting()) werr(w, "node left with splitting bit");
    if (v.get_root() != is_layer_root) werr(w, std::string("root bit ") + (v.get_root() ? "set on non-root" : "missing on layer root"));
    if (n->parent_ != parent_expect) werr(w, "parent pointer mismatch at depth " + std::to_string(depth));
    bool is_border = dynamic_cast<border_node*>(n) != nullptr;
    if (v.get_border() != is_border) werr(w, "border bit mismatch");
    std::ostringstream c;
    if (w.want_canon) {
        c << "{" << node_id(w, n) << (is_border ? "B" : "I") << (v.get_root() ? "r" : "") << (v.get_deleted() ? "d" : "")
          << (v.get_locked() ? "L" : "") << (v.get_inserting_deleting() ? "i" : "") << (v.get_splitting() ? "s" : "");
    }
    if (!is_border) {
        auto* in = dynamic_cast<interior_node*>(n);
        if (v.get_deleted()) werr(w, "deleted interior node reachable");
        std::size_t nk = in->n_keys_.load();
        if (nk < 1 || nk > key_slice_length) {
            werr(w, "interior n_keys out of range: " + std::to_string(nk));
            return;
        }
        if (w.want_canon) c << " n" << nk;
        for (std::size_t i = 0; i + 1 < nk; ++i) {
            if (ref_cmp_tuple(in->key_slice_[i], in->key_length_[i], in->key_slice_[i + 1], in->key_length_[i + 1]) >= 0) {
                werr(w, "interior separators not strictly ascending");
            }
        }
        for (std::size_t i = 0; i < nk; ++i) {
            if (lo.has && ref_cmp_tuple(in->key_slice_[i], in->key_length_[i], lo.s, lo.l) <= 0) {
                // a separator equal to lo is impossible: child ranges would be empty by construction
                werr(w, "interior separator not above lower bound");
            }
            if (hi.has && ref_cmp_tuple(in->key_slice_[i], in->key_length_[i], hi.s, hi.l) >= 0) {
                werr(w, "interior separator not below upper bound");
            }
            if (w.want_canon) c << " k" << hex(tuple_bytes(in->key_slice_[i], in->key_length_[i])) << "/" << int(in->key_length_[i]);
        }
        if (w.want_canon) {
            // stale contents beyond n_keys are part of the state (shift operations move whole arrays)
            for (std::size_t i = nk; i < key_slice_length; ++i) {
                if (in->key_length_[i] != 0 || in->key_slice_[i] != 0) {
                    c << " s" << i << "=" << hex(tuple_bytes(in->key_slice_[i], in->key_length_[i])) << "/" << int(in->key_length_[i]);
                }
            }
            for (std::size_t i = nk + 1; i < interior_node::child_length; ++i) {
                if (in->children[i] != nullptr) c << " c" << i << "=stale";
            }
            w.canon += c.str();
        }
        for (std::size_t i = 0; i <= nk; ++i) {
            Bound clo = lo, chi = hi;
            if (i > 0) {
                clo.has = true;
                clo.s = in->key_slice_[i - 1];
                clo.l = in->key_length_[i - 1];
            }
            if (i < nk) {
                chi.has = true;
                chi.s = in->key_slice_[i];
                chi.l = in->key_length_[i];
            }
            walk_node(w, in->children[i], n, false, clo, chi, prefix, depth + 1, layer, leaves);
        }
        if (w.want_canon) w.canon += "}";
        return;
    }
    auto* bn = dynamic_cast<border_node*>(n);
    w.borders.push_back(bn);
    leaves.push_back(bn);
    std::uint64_t perm = bn->permutation_.body_.load();
    std::size_t cnk = perm & 0xf;
    if (v.get_deleted()) {
        bool top_root = is_layer_root && layer == 0;
        if (!top_root) werr(w, "deleted border node reachable");
        if (cnk != 0) werr(w, "deleted border node holds entries");
    } else if (cnk == 0 && !(is_layer_root && layer == 0)) {
        werr(w, "empty border node reachable (not deleted)");
    }
    if (cnk > key_slice_length) {
        werr(w, "permutation count > 15");
        return;
    }
    unsigned used = 0;
    if (w.want_canon) c << " p";
    bool have_prev = false;
    key_slice_type ps = 0;
    key_length_type pl = 0;
    std::vector<std::pair<std::string, base_node*>> links;
    for (std::size_t r = 0; r < cnk; ++r) {
        std::size_t slot = (perm >> (4 * (r + 1))) & 0xf;
        if (slot >= key_slice_length) {
            werr(w, "permutation slot 15");
            continue;
        }
        if (((used >> slot) & 1u) != 0) werr(w, "permutation slot used twice");
        used |= 1u << slot;
        key_slice_type s = bn->key_slice_[slot];
        key_length_type l = bn->key_length_[slot];
        if (l > 9) werr(w, "key length > 9");
        if (have_prev && ref_cmp_tuple(ps, pl, s, l) >= 0) werr(w, "border entries not strictly ascending");
        if (l < 8) {
            // bytes beyond the length must be zero (lookups compare whole slices)
            key_slice_type m = l == 0 ? 0 : (~key_slice_type{0} >> (8 * (8 - l)));
            if ((s & ~m) != 0) werr(w, "key slice has garbage beyond its length");
        }
        have_prev = true;
        ps = s;
        pl = l;
        if (lo.has && ref_cmp_tuple(s, l, lo.s, lo.l) < 0) werr(w, "border entry below the separator range");
        if (hi.has && ref_cmp_tuple(s, l, hi.s, hi.l) >= 0) werr(w, "border entry above the separator range");
        std::string full = prefix + tuple_bytes(s, l);
        uintptr_t raw = bn->lv_[slot].child_or_v_;
        base_node* child = bn->lv_[slot].get_next_layer();
        value* vp = bn->lv_[slot].get_value();
        if (w.want_canon) c << " " << slot << ":" << hex(tuple_bytes(s, l)) << "/" << int(l);
        if (l > 8) {
            if (child == nullptr) {
                werr(w, "link entry without next layer pointer");
            } else {
                links.emplace_back(full, child);
                if (w.want_canon) c << ">L" << node_id(w, child);
            }
        } else {
            if (child != nullptr) {
                werr(w, "value entry holds a next layer pointer");
            } else if (w.inline_values) {
                w.kv.emplace_back(full, std::string(reinterpret_cast<const char*>(&raw), 8)); // NOLINT
            } else if (vp == nullptr) {
                werr(w, "value entry with null value");
                w.kv.emplace_back(full, "<null>");
            } else {
                auto vi = ykalloc::lookup(value::get_body(vp));
                if (vi.found && !vi.live) {
                    werr(w, "value entry points to freed memory");
                    w.kv.emplace_back(full, "<freed>");
                } else {
                    std::string bytes(static_cast<const char*>(value::get_body(vp)), value::get_len(vp));
                    w.kv.emplace_back(full, bytes);
                    if (w.want_canon) {
                        if (w.value_ids != nullptr) {
                            auto it = w.value_ids->find(value::get_body(vp));
                            c << "=v" << (it == w.value_ids->end() ? -1 : it->second);
                        } else if (!w.values_are_trees) {
                            c << "=" << hex(bytes);
                        }
                    }
                }
            }
        }
    }
    if (w.want_canon) {
        // stale contents of unused slots are part of the state
        for (std::size_t slot = 0; slot < key_slice_length; ++slot) {
            if (((used >> slot) & 1u) != 0) continue;
            uintptr_t raw = bn->lv_[slot].child_or_v_;
            if (bn->key_length_[slot] != 0 || bn->key_slice_[slot] != 0 || raw != link_or_value::kValPtrFlag) {
                c << " u" << slot << "=" << hex(tuple_bytes(bn->key_slice_[slot], bn->key_length_[slot])) << "/"
                  << int(bn->key_length_[slot]) << (raw != link_or_value::kValPtrFlag ? "+lv" : "");
            }
        }
        c << " <" << node_id(w, bn->prev_) << " >" << node_id(w, bn->next_);
        w.canon += c.str();
    }
    for (auto& lk : links) {
        walk_layer(w, lk.second, bn, lk.first, layer + 1);
    }
    if (w.want_canon) w.canon += "}";
}

inline void walk_layer(WalkOut& w, base_node* root, base_node* parent_expect, const std::string& prefix, int layer) {
    if (layer + 1 > w.layers) w.layers = layer + 1;
    std::vector<border_node*> leaves;
    std::size_t kv_before = w.kv.size();
    (void) kv_before;
    walk_node(w, root, parent_expect, true, Bound{}, Bound{}, prefix, 0, layer, leaves);
    // leaf chain of this layer
    for (std::size_t i = 0; i < leaves.size(); ++i) {
        border_node* expect_prev = i == 0 ? nullptr : leaves[i - 1];
        border_node* expect_next = i + 1 == leaves.size() ? nullptr : leaves[i + 1];
        if (leaves[i]->prev_ != expect_prev) werr(w, "leaf chain: prev pointer wrong at leaf " + std::to_string(i) + " of layer " + std::to_string(layer));
        if (leaves[i]->next_ != expect_next) werr(w, "leaf chain: next pointer wrong at leaf " + std::to_string(i) + " of layer " + std::to_string(layer));
    }
}

// Walk a whole tree. kv comes out in walk order: keys of a layer-0 border, with next layers expanded after it,
// so sort before comparing as a set; order *within* the API is checked by scan.
inline void walk_tree(WalkOut& w, tree_instance* ti) {
    if (ti->root_lock_.load()) werr(w, "root lock left held");
    base_node* root = ti->root_;
    if (root == nullptr) {
        if (w.want_canon) w.canon = "<noroot>";
        return;
    }
    walk_layer(w, root, nullptr, "", 0);
}

inline std::string join_errors(const std::vector<std::string>& e) {
    std::string s;
    for (auto& x : e) {
        if (!s.empty()) s += "; ";
        s += x;
    }
    return s;
}

// full forward scan / full backward iscan / point gets against the model. Returns "" or an error text.
inline std::string api_agreement(tree_instance* ti, const Model& m, const std::vector<std::string>& universe,
                                 bool check_iscan = true) {
    std::ostringstream e;
    // gets
    for (auto& k : universe) {
        GetResult g = t_get(ti, k);
        auto it = m.find(k);
        if (it == m.end()) {
            if (g.st != status::WARN_NOT_EXIST) e << "get(" << hex(k) << ") on absent key -> " << st_name(g.st) << "; ";
        } else {
            if (g.st != status::OK) {
                e << "get(" << hex(k) << ") on present key -> " << st_name(g.st) << "; ";
            } else if (g.null_ok) {
                e << "get(" << hex(k) << ") OK with null pointer; ";
            } else if (g.bytes != it->second) {
                e << "get(" << hex(k) << ") wrong bytes " << hex(g.bytes) << " want " << hex(it->second) << "; ";
            }
        }
    }
    // forward scan
    std::vector<ScanTuple> out;
    status st = t_scan(ti, "", scan_endpoint::INF, "", scan_endpoint::INF, out);
    if (st != status::OK && st != status::OK_ROOT_IS_NULL) e << "full scan -> " << st_name(st) << "; ";
    {
        bool same = out.size() == m.size();
        auto it = m.begin();
        for (std::size_t i = 0; same && i < out.size(); ++i, ++it) {
            if (std::get<0>(out[i]) != it->first) same = false;
            else if (std::get<1>(out[i]) == nullptr) same = false;
            else if (std::string(std::get<1>(out[i]), std::get<2>(out[i])) != it->second) same = false;
        }
        if (!same) {
            e << "full forward scan differs from model: got [";
            for (auto& t : out) e << hex(std::get<0>(t)) << " ";
            e << "] want [";
            for (auto& kv : m) e << hex(kv.first) << " ";
            e << "]; ";
        }
    }
    if (check_iscan && ti->root_ != nullptr) {
        iscan_context* ctx = nullptr;
        void* val = nullptr;
        std::vector<std::pair<std::string, std::string>> got;
        status rc = iscan_open(ti, "", scan_endpoint::INCLUSIVE, "", scan_endpoint::INF, ctx, val, dummycallback, true, false);
        std::size_t guard = 0;
        while (rc == status::OK && guard++ < m.size() + 8) {
            std::string k = ctx->full_key();
            auto it = m.find(k);
            std::string bytes;
            if (val != nullptr && it != m.end()) bytes.assign(static_cast<const char*>(val), it->second.size());
            got.emplace_back(k, val == nullptr ? std::string("<null>") : bytes);
            rc = iscan_next(ctx, val);
        }
        if (rc != status::OK_SCAN_END) e << "backward iscan ended with " << st_name(rc) << "; ";
        iscan_close(ctx);
        std::reverse(got.begin(), got.end());
        bool same = got.size() == m.size();
        auto it = m.begin();
        for (std::size_t i = 0; same && i < got.size(); ++i, ++it) {
            if (got[i].first != it->first || got[i].second != it->second) same = false;
        }
        if (!same) {
            e << "reversed backward iscan differs from model: got [";
            for (auto& t : got) e << hex(t.first) << " ";
            e << "] want [";
            for (auto& kv : m) e << hex(kv.first) << " ";
            e << "]; ";
        }
    }
    return e.str();
}

// structural walk + model agreement of the walked content. Returns "" or error.
inline std::string check_tree(tree_instance* ti, const Model& m, WalkOut* wout = nullptr) {
    WalkOut local;
    WalkOut& w = wout != nullptr ? *wout : local;
    walk_tree(w, ti);
    std::string e = join_errors(w.errors);
    std::vector<std::pair<std::string, std::string>> kv = w.kv;
    std::sort(kv.begin(), kv.end());
    bool same = kv.size() == m.size();
    auto it = m.begin();
    for (std::size_t i = 0; same && i < kv.size(); ++i, ++it) {
        if (kv[i].first != it->first || kv[i].second != it->second) same = false;
    }
    if (!same) {
        if (!e.empty()) e += "; ";
        e += "walked content differs from model: walked [";
        for (auto& t : kv) e += hex(t.first) + "=" + hex(t.second.substr(0, 12)) + " ";
        e += "] model [";
        for (auto& t : m) e += hex(t.first) + "=" + hex(t.second.substr(0, 12)) + " ";
        e += "]";
    }
    return e;
}

// independent accounting for mem_usage
inline std::string check_mem_usage(tree_instance* ti, const std::string& storage) {
    memory_usage_stack got = mem_usage(storage);
    std::vector<std::tuple<std::size_t, std::size_t, std::size_t>> want;
    std::function<void(base_node*, std::size_t)> rec = [&](base_node* n, std::size_t level) {
        if (want.size() <= level) want.resize(level + 1, {0, 0, 0});
        if (auto* in = dynamic_cast<interior_node*>(n)) {
            std::get<0>(want[level])++;
            std::get<2>(want[level]) += sizeof(interior_node);
            std::size_t nk = in->n_keys_.load();
            for (std::size_t i = 0; i <= nk; ++i) rec(in->children[i], level + 1);
        } else {
            auto* bn = dynamic_cast<border_node*>(n);
            std::get<0>(want[level])++;
            std::get<2>(want[level]) += sizeof(border_node);
            std::uint64_t perm = bn->permutation_.body_.load();
            std::size_t cnk = perm & 0xf;
            for (std::size_t r = 0; r < cnk; ++r) {
                std::size_t slot = (perm >> (4 * (r + 1))) & 0xf;
                base_node* child = bn->lv_[slot].get_next_layer();
                if (child != nullptr) {
                    rec(child, level + 1);
                } else {
                    value* vp = bn->lv_[slot].get_value();
                    if (vp != nullptr && value::is_value_ptr(vp)) {
                        // the block starts at the value header (the body of a zero-length value is one past the end)
                        auto info = ykalloc::lookup(std::get<0>(value::get_gc_info(vp)));
                        if (info.found) std::get<2>(want[level]) += info.size;
                    }
                }
            }
        }
    };
    if (ti->root_ != nullptr) rec(ti->root_, 0);
    std::ostringstream e;
    if (got.size() != want.size()) {
        e << "mem_usage has " << got.size() << " levels, tree has " << want.size();
        return e.str();
    }
    for (std::size_t l = 0; l < got.size(); ++l) {
        if (std::get<0>(got[l]) != std::get<0>(want[l])) e << "level " << l << ": node count " << std::get<0>(got[l]) << " want " << std::get<0>(want[l]) << "; ";
        if (std::get<2>(got[l]) != std::get<2>(want[l])) e << "level " << l << ": reserved " << std::get<2>(got[l]) << " want " << std::get<2>(want[l]) << "; ";
        if (std::get<1>(got[l]) > std::get<2>(got[l])) e << "level " << l << ": used " << std::get<1>(got[l]) << " > reserved " << std::get<2>(got[l]) << "; ";
    }
    return e.str();
}


// ------------------------------------------------------------------------------------------
// library statics (many executions share one process)
// ------------------------------------------------------------------------------------------
inline void sequential_teardown_mode() { destroy_manager::hardware_concurrency_ = 0; }

inline void reset_library_statics() {
    epoch_management::epoch_.store(1);
    garbage_collection::gc_epoch_.store(0);
    for (auto& ti : thread_info_table::thread_info_table_) {
        ti.running_.store(false);
        ti.begin_epoch_.store(0);
    }
    epoch_manager::kEpochThreadEnd.store(false);
    epoch_manager::kGCThreadEnd.store(false);
    destroy_manager::destroy_threads_num_.store(0);
}

// free everything the sessions retired (sequentially) - the counterpart of thread_info_table::fin()
inline void drain_retired() {
    for (auto& ti : thread_info_table::thread_info_table_) ti.gc_info_.fin();
}

inline void destroy_tree(tree_instance* ti) {
    base_node* root = ti->root_;
    if (root != nullptr) {
        root->destroy();
        delete root; // NOLINT
        ti->root_ = nullptr;
    }
    ti->root_lock_.store(false);
}

// ------------------------------------------------------------------------------------------
// seed shapes
// ------------------------------------------------------------------------------------------
struct Shape {
    std::string name;
    std::vector<std::string> inserts;   // in this order
    std::vector<std::string> removes;   // afterwards, in this order
    std::map<std::string, std::string> pal; // named keys for harness programs
};

inline std::string k2(int i) {
    char b[8];
    snprintf(b, sizeof(b), "%02d", i);
    return b;
}
inline const std::string& P8() {
    static const std::string p = "PPPPPPPP";
    return p;
}

inline std::string val_of(const std::string& key, int gen = 0) {
    // value bytes encode key and generation; length differs by generation so that torn length/body pairs show
    if (gen >= 10) {
        // generations 10.. have exactly the length of generation 0 and differ from it in every byte but the first and third:
        // an overwrite that re-uses the stored buffer in place is only possible (and only visible) with equal lengths
        std::string v = "v";
        v += char('A' + (gen - 10));
        v += ":";
        for (char c : hex(key)) v += char(c ^ 0x40);
        return v;
    }
    std::string v = "v" + std::to_string(gen) + ":" + hex(key);
    for (int i = 0; i < gen; ++i) v += "+";
    return v;
}

inline std::vector<Shape> all_shapes() {
    std::vector<Shape> v;
    auto seq = [](int a, int b) {
        std::vector<std::string> r;
        for (int i = a; i <= b; ++i) r.push_back(k2(i));
        return r;
    };
    {
        Shape s;
        s.name = "NOROOT";
        s.pal = {{"new", "10"}, {"new2", "20"}, {"long", P8() + "a"}};
        v.push_back(s);
    }
    {
        Shape s;
        s.name = "EMPTYROOT";
        s.inserts = {"10"};
        s.removes = {"10"};
        s.pal = {{"new", "10"}, {"new2", "20"}, {"long", P8() + "a"}};
        v.push_back(s);
    }
    {
        Shape s;
        s.name = "B1";
        s.inserts = {"10"};
        s.pal = {{"in", "10"}, {"new", "05"}, {"new2", "20"}, {"long", P8() + "a"}};
        v.push_back(s);
    }
    {
        // two keys in the root border: two removes empty the root together
        Shape s;
        s.name = "B2";
        s.inserts = {"10", "20"};
        s.pal = {{"in", "10"}, {"in2", "20"}, {"new", "15"}, {"new2", "05"}, {"long", P8() + "a"}};
        v.push_back(s);
    }
    {
        Shape s;
        s.name = "B3";
        s.inserts = {"10", "20", "30"};
        s.pal = {{"in", "20"}, {"in2", "30"}, {"new", "25"}, {"new2", "05"}, {"edge", "30"}, {"long", P8() + "a"}};
        v.push_back(s);
    }
    {
        Shape s;
        s.name = "B15";
        s.inserts = seq(1, 15);
        s.pal = {{"in", "08"}, {"in2", "09"}, {"new", "16"}, {"new2", "075"}, {"edge", "15"}, {"first", "01"}, {"long", P8() + "a"}};
        v.push_back(s);
    }
    {
        // full root border whose LAST entry is a link to a one-key layer: a split moves the link (and re-parents the layer root)
        Shape s;
        s.name = "B15Lhi";
        s.inserts = seq(1, 14);
        s.inserts.push_back(P8() + "a");
        s.pal = {{"in", "08"}, {"inL", P8() + "a"}, {"only", P8() + "a"}, {"newL", P8() + "b"}, {"new", "075"}, {"new2", "15"}, {"first", "01"}};
        v.push_back(s);
    }
    {
        // full root border whose FIRST entry is a link to a one-key layer: a split leaves the link in the old node
        Shape s;
        s.name = "B15Llo";
        s.inserts = seq(1, 14);
        s.inserts.push_back("!!!!!!!!a");
        s.pal = {{"in", "08"}, {"inL", "!!!!!!!!a"}, {"only", "!!!!!!!!a"}, {"newL", "!!!!!!!!b"}, {"new", "075"}, {"new2", "15"}, {"edge", "14"}};
        v.push_back(s);
    }
    {
        // interior root over two borders 8 | 8
        Shape s;
        s.name = "I2_8_8";
        s.inserts = seq(1, 16);
        s.pal = {{"in", "08"}, {"in2", "09"}, {"new", "085"}, {"new2", "17"}, {"edge", "16"}, {"first", "01"}};
        v.push_back(s);
    }
    {
        // left border holds a single key: removing it unlinks the leftmost border
        Shape s;
        s.name = "I2_1_8";
        s.inserts = seq(1, 16);
        s.removes = seq(1, 7);
        s.pal = {{"in", "08"}, {"in2", "09"}, {"new", "085"}, {"new2", "07"}, {"edge", "16"}, {"only", "08"}};
        v.push_back(s);
    }
    {
        // right border holds a single key
        Shape s;
        s.name = "I2_8_1";
        s.inserts = seq(1, 16);
        s.removes = seq(10, 16);
        s.pal = {{"in", "08"}, {"in2", "09"}, {"new", "10"}, {"new2", "085"}, {"edge", "09"}, {"only", "09"}};
        v.push_back(s);
    }
    {
        // three borders 8 | 1 | 8 : middle one is removed by deleting "09"
        Shape s;
        s.name = "I3_8_1_8";
        s.inserts = seq(1, 24);
        s.removes = seq(10, 16);
        s.pal = {{"in", "08"}, {"only", "09"}, {"in2", "17"}, {"new", "10"}, {"new2", "085"}, {"edge", "24"}};
        v.push_back(s);
    }
    {
        // two single-key borders 1 | 1 under an interior root: two removes empty both siblings at once
        Shape s;
        s.name = "I2_1_1";
        s.inserts = seq(1, 16);
        s.removes = seq(1, 7);
        for (auto& k : seq(10, 16)) s.removes.push_back(k);
        s.pal = {{"only", "08"}, {"in", "08"}, {"in2", "09"}, {"new", "085"}, {"new2", "10"}, {"edge", "09"}};
        v.push_back(s);
    }
    {
        // three single-key borders 1 | 1 | 1
        Shape s;
        s.name = "I3_1_1_1";
        s.inserts = seq(1, 24);
        s.removes = seq(1, 7);
        for (auto& k : seq(10, 16)) s.removes.push_back(k);
        for (auto& k : seq(18, 24)) s.removes.push_back(k);
        s.pal = {{"only", "09"}, {"in", "08"}, {"in2", "17"}, {"new", "085"}, {"new2", "10"}, {"edge", "17"}};
        v.push_back(s);
    }
    {
        // 8 | 15 : second border full, next insert splits a non-first child
        Shape s;
        s.name = "I2_8_15";
        s.inserts = seq(1, 23);
        s.pal = {{"in", "08"}, {"in2", "09"}, {"new", "24"}, {"new2", "155"}, {"edge", "23"}};
        v.push_back(s);
    }
    {
        // four borders 8 | 15 | 1 | 8 : the single-key node sits right of a FULL node (unlink of a node whose previous sibling splits)
        Shape s;
        s.name = "I4_8_15_1_8";
        s.inserts = seq(1, 32);
        for (int i = 1; i <= 7; ++i) s.inserts.push_back("09" + std::to_string(i));
        s.removes = seq(18, 24);
        s.pal = {{"in", "08"}, {"in2", "16"}, {"only", "17"}, {"new", "098"}, {"new2", "175"}, {"edge", "32"}, {"first", "01"}, {"in3", "25"}};
        v.push_back(s);
    }
    {
        // one long key next to short ones: layer 1 holds a single key
        Shape s;
        s.name = "L1one";
        s.inserts = {"10", P8() + "a", "zz"};
        s.pal = {{"in", "10"}, {"inL", P8() + "a"}, {"newL", P8() + "b"}, {"new", "20"}, {"pfx", P8()}, {"only", P8() + "a"}};
        v.push_back(s);
    }
    {
        Shape s;
        s.name = "L1_3";
        s.inserts = {"10", P8() + "a", P8() + "b", P8() + "c", "zz"};
        s.pal = {{"in", "10"}, {"inL", P8() + "b"}, {"inL2", P8() + "c"}, {"newL", P8() + "bb"}, {"new", "20"}, {"pfx", P8()}};
        v.push_back(s);
    }
    {
        // layer 1 border is full: next insert into the layer splits its root (layer root replacement)
        Shape s;
        s.name = "L1full";
        s.inserts = {"10"};
        for (int i = 1; i <= 15; ++i) s.inserts.push_back(P8() + k2(i));
        s.pal = {{"in", "10"}, {"inL", P8() + "08"}, {"inL2", P8() + "09"}, {"newL", P8() + "16"}, {"newL2", P8() + "075"}, {"new", "20"}};
        v.push_back(s);
    }
    {
        // layer 1 root is an interior node with borders 1 | 8 : removing the only key collapses the layer root
        Shape s;
        s.name = "L1I2_1_8";
        s.inserts = {"10"};
        for (int i = 1; i <= 16; ++i) s.inserts.push_back(P8() + k2(i));
        for (int i = 1; i <= 7; ++i) s.removes.push_back(P8() + k2(i));
        s.pal = {{"in", "10"}, {"only", P8() + "08"}, {"inL", P8() + "09"}, {"inL2", P8() + "10"}, {"newL", P8() + "085"}, {"new", "20"}};
        v.push_back(s);
    }
    {
        // layer 1 root is an interior node with two single-key borders 1 | 1
        Shape s;
        s.name = "L1I2_1_1";
        s.inserts = {"10"};
        for (int i = 1; i <= 16; ++i) s.inserts.push_back(P8() + k2(i));
        for (int i = 1; i <= 7; ++i) s.removes.push_back(P8() + k2(i));
        for (int i = 10; i <= 16; ++i) s.removes.push_back(P8() + k2(i));
        s.pal = {{"in", "10"}, {"only", P8() + "08"}, {"inL", P8() + "09"}, {"newL", P8() + "085"}, {"new", "20"}};
        v.push_back(s);
    }
    {
        // full root border (14 values + one link) over a full layer-1 root border: one insert splits the layer root, another one
        // splits the root of the whole tree
        Shape s;
        s.name = "B15L15";
        s.inserts = seq(1, 14);
        for (int i = 1; i <= 15; ++i) s.inserts.push_back(P8() + k2(i));
        s.pal = {{"in", "08"}, {"inL", P8() + "08"}, {"inL2", P8() + "09"}, {"newL", P8() + "16"}, {"newL2", P8() + "075"}, {"new", "075"}, {"new2", "15"}};
        v.push_back(s);
    }
    {
        // three layers
        Shape s;
        s.name = "L2";
        s.inserts = {"10", P8() + "a", P8() + P8() + "x", P8() + P8() + "y"};
        s.pal = {{"in", "10"}, {"inL", P8() + "a"}, {"inLL", P8() + P8() + "x"}, {"inLL2", P8() + P8() + "y"}, {"newLL", P8() + P8() + "xx"}, {"new", "20"}};
        v.push_back(s);
    }
    return v;
}

// ---------------------------------------------------------------------------------------------------------------------------
// C12: put with an inserted_node_info, compared with the version words of all border nodes before and after the call.
// Returns "" or "symptom|detail". `present`: the key is stored already (the put overwrites, or a unique put fails).
// ---------------------------------------------------------------------------------------------------------------------------
inline std::map<border_node*, uint64_t> border_version_words(tree_instance* ti) {
    WalkOut w;
    walk_tree(w, ti);
    std::map<border_node*, uint64_t> m;
    for (auto* b : w.borders) {
        auto body = b->version_.body_.load();
        uint64_t raw = 0;
        memcpy(&raw, &body, 8);
        m[b] = raw;
    }
    return m;
}

inline std::string put_info_check(Token tk, tree_instance* ti, const std::string& key, const std::string& v, bool unique, bool present, status& st) {
    auto before = border_version_words(ti);
    auto* const untouched = reinterpret_cast<node_version64*>(0x1); // NOLINT
    inserted_node_info info{untouched, untouched};
    st = t_put(tk, ti, key, v, unique, &info);
    auto after = border_version_words(ti);
    std::set<border_node*> changed, created;
    border_node* split_node = nullptr;
    for (auto& kv : after) {
        auto it = before.find(kv.first);
        if (it == before.end()) {
            created.insert(kv.first);
        } else if (it->second != kv.second) {
            changed.insert(kv.first);
            uint64_t vs_b = (it->second >> 32) & ((1ULL << 29) - 1), vs_a = (kv.second >> 32) & ((1ULL << 29) - 1);
            if (vs_b != vs_a) split_node = kv.first;
        }
    }
    if (present) {
        if (!changed.empty() || !created.empty()) return "putinfo:overwrite_changed_version|a put on an existing key changed a border version or created a node";
        return "";
    }
    if (st != status::OK) return std::string("putinfo:status|insert of a new key returned ") + st_name(st);
    border_node* mod_node = nullptr;
    for (auto& kv : after) {
        if (kv.first->get_version_ptr() == info.modified_nvp) mod_node = kv.first;
    }
    if (mod_node == nullptr) return "putinfo:modified_not_a_border|reported modified node is not a reachable border node";
    std::set<border_node*> want_changed = changed;
    if (before.count(mod_node) == 0) {
        if (!before.empty()) return "putinfo:modified_is_new_node|reported modified node did not exist before the call";
    } else if (changed.count(mod_node) == 0) {
        return "putinfo:modified_unchanged|reported modified node kept its version word";
    }
    want_changed.erase(mod_node);
    if (!want_changed.empty()) return "putinfo:unreported_change|" + std::to_string(want_changed.size()) + " other pre-existing border node(s) changed their version word";
    if (split_node != nullptr) {
        if (info.created_nvp == nullptr) return "putinfo:split_not_reported|a border split but created_nvp is null";
        if (split_node->next_ == nullptr || split_node->next_->get_version_ptr() != info.created_nvp) return "putinfo:created_wrong|created_nvp is not the new right sibling of the split node";
        if (created.count(split_node->next_) == 0) return "putinfo:created_not_new|created_nvp designates a node that existed before";
        if (mod_node != split_node) return "putinfo:modified_not_split_node|modified_nvp is not the node that split";
    } else if (info.created_nvp != nullptr) {
        return "putinfo:created_without_split|created_nvp set although no border split";
    }
    return "";
}

inline const Shape* find_shape(const std::vector<Shape>& v, const std::string& n) {
    for (auto& s : v) {
        if (s.name == n) return &s;
    }
    return nullptr;
}

// build the shape into ti using token tk; returns the model of its contents
inline Model build_shape(const Shape& s, Token tk, tree_instance* ti) {
    Model m;
    for (auto& k : s.inserts) {
        std::string v = val_of(k);
        t_put(tk, ti, k, v);
        m[k] = v;
    }
    for (auto& k : s.removes) {
        t_remove(tk, ti, k);
        m.erase(k);
    }
    return m;
}

// interior root with 16 children (IFULL) and two interior levels (II) need many keys
inline Shape shape_ifull() {
    Shape s;
    s.name = "IFULL";
    // ascending inserts: every split leaves 8 on the left; 16 borders need 15*8+8 keys; last border full -> +7
    for (int i = 1; i <= 15 * 8 + 15; ++i) {
        char b[8];
        snprintf(b, sizeof(b), "%03d", i);
        s.inserts.emplace_back(b);
    }
    s.pal = {{"in", "064"}, {"in2", "130"}, {"new", "136"}, {"edge", "135"}, {"new2", "0645"}};
    return s;
}

} // namespace ykc
