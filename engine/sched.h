// ykmc - cooperative scheduler + bounded DFS explorer over hooked yakushima code.
// This header has no dependency on yakushima; harnesses include it next to kvs.h.
#pragma once
#include <cstdint>
#include <functional>
#include <string>
#include <vector>

namespace ykmc {

// hook kinds / classes (mirror verif_hooks.h)
enum { K_LOAD = 0, K_STORE = 1, K_RMW = 2, K_PLAINW = 3 };
enum { C_TREE = 0, C_SESSION = 1, C_EPOCH = 2, C_GCQ = 3, C_STOP = 4, C_HARNESS = 5 };

constexpr int kMaxThreads = 8;

struct Deviation {
    int idx; // decision index
    int tid; // thread chosen instead of the default
};

struct Decision {
    int running;       // tid that arrived (-1: none / not enabled)
    unsigned mask;     // enabled threads
    int def;           // default choice
    int chosen;        // what was taken
    int cost;          // cost of taking a non-default alternative here
    int why;           // 0 point, 1 wait-block, 2 yield, 3 thread end, 4 start, 5 join
    int line;          // site of the running thread
    const char* file;
};

enum Verdict { V_OK = 0, V_VIOLATION = 1, V_DEADLOCK = 2, V_LIVELOCK = 3, V_CRASH = 4, V_DIVERGED = 5 };

struct ExecResult {
    int verdict = V_OK;
    std::string symptom;  // short class, goes into the signature
    std::string detail;   // human readable
    std::string outcome;  // outcome digest of this execution (results of all ops)
};

// A harness describes one scenario: setup on the controller thread, bodies on logical threads,
// finish (oracle + teardown) on the controller thread.
class Harness {
public:
    virtual ~Harness() = default;
    virtual int nthreads() = 0;
    virtual void setup() = 0;
    virtual void body(int tid) = 0;
    // called after all logical threads finished (never after a deadlock/livelock/crash).
    virtual void finish(ExecResult& r) = 0;
    // background threads: yield horizon per thread (0 = not a background thread)
    virtual int horizon(int /*tid*/) { return 0; }
    // complete digest of the shared state for stateful search (0 = unsupported)
    virtual uint64_t shared_digest() { return 0; }
    virtual std::string name() = 0;
};

struct Options {
    int bound = 2;
    unsigned cls_mask = 0xffffffffu; // classes whose points are scheduling choice points
    long max_exec = -1;              // cap on executions (per bound iteration); -1 none
    double deadline = 0;             // absolute monotonic seconds; 0 none
    long watchdog = 400000;          // points per execution before calling it a livelock
    int shard = 0, nshards = 1;      // partition of the subtrees below deviation depth shard_depth
    int shard_depth = 1;
    bool stateful = false;           // prune on (thread observation hashes, shared digest, budget)
    bool isolate = true;             // run the exploration in a forked child (crash/deadlock isolation)
    bool iterate_bounds = true;      // run bound 0,1,..,bound (first counterexample has fewest deviations)
    int stop_after_violations = 1;   // stop a scenario after that many violating schedules
    bool trace = false;              // print every point (replay/debug)
    bool relevance = false;          // prune choice points at sites that never conflict (fixpoint)
};

struct Violation {
    int verdict;
    std::string symptom, detail;
    std::vector<Deviation> schedule;
    int bound;
};

struct Stats {
    long executions = 0;
    long decisions = 0;   // scheduling decisions executed (transitions)
    long new_nodes = 0;   // schedule-tree nodes not shared with the parent execution (states)
    long nontrivial = 0;  // executions with >= 1 switch away from a thread that is inside an operation
    long spurious_blocks = 0;
    long pruned_states = 0;
    int max_decisions = 0;
    long max_points = 0;
    int bound_completed = -1;
    std::vector<long> exec_per_bound;
    bool capped = false;     // execution cap or deadline hit
    long distinct_outcomes = 0;
    std::vector<std::string> sample_outcomes;
    std::vector<std::string> sample_schedules;
    int relevance_rounds = 0;
    long relevant_sites = 0;
};

struct RunReport {
    Stats stats;
    std::vector<Violation> violations;
};

// explore one scenario
RunReport explore(Harness& h, const Options& opt);
// replay one schedule, returns its result (used by `replay` and by the report-before-claim rule)
ExecResult replay(Harness& h, const Options& opt, const std::vector<Deviation>& sched, std::string* trace_out = nullptr);

// ---- services for code running on logical threads ----
int self();                 // logical thread id or -1
uint64_t op_begin();        // logical timestamp; marks the start of an API call
uint64_t op_end();
uint64_t clock_now();
void release_parked();      // let parked background threads run to their end
void harness_point(int kind, const void* addr, int size, int line); // harness-level shared cell access
void harness_wait(const void* addr, int line);                      // harness-level spin wait
bool active();              // an execution is in progress on this thread
bool tick(int role, int n); // let library thread `role` (0 epoch, 1 gc) pass n sleeps, park it again; false if it has exited
bool role_alive(int role);
long points_of(int tid);
// event callback (RETIRE etc.), invoked on the calling thread
extern void (*event_cb)(int tid, int ev, const void* obj, unsigned long long a, unsigned long long b);
// thread hook callback for dynamically spawned library threads (C16)
double mono_now();

std::string sched_to_string(const std::vector<Deviation>& s);
std::vector<Deviation> sched_from_string(const std::string& s);

} // namespace ykmc
