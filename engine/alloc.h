// Allocation monitor: the harness owns every operator new/delete of the process.
#pragma once
#include <cstddef>
#include <cstdint>
#include <string>
#include <vector>

namespace ykalloc {

struct Info {
    const void* base = nullptr;
    size_t size = 0;
    size_t align = 0;   // 0: plain new
    uint32_t id = 0;    // sequence number since begin_tracking()
    bool live = false;
    bool found = false;
};

// start a tracked region: forgets all previous blocks (quarantined memory is returned to malloc)
void begin_tracking();
// stop tracking new allocations; blocks stay known until the next begin_tracking()
void end_tracking();
bool tracking();
// scan the quarantined node/value blocks for bytes that are no longer poison (write after free); end_tracking() does it too
void verify_quarantine();
// block that contains p (live or quarantined)
Info lookup(const void* p);
// number / list of live blocks allocated with an alignment argument (nodes and values) since begin_tracking()
long live_aligned();
long live_plain_of_size(size_t size);
long total_allocs();
long total_frees();
std::vector<Info> live_aligned_list();
// errors seen since begin_tracking(): double free, mismatching sized/aligned delete
const std::vector<std::string>& errors();
void clear_errors();
// freed blocks are filled with this byte and kept until the next begin_tracking()
constexpr unsigned char kPoison = 0xDD;
// when true, delete really frees (used by the asan variant so that the sanitizer sees use-after-free)
extern bool passthrough_free;

} // namespace ykalloc
