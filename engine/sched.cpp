// ykmc scheduler + explorer. See sched.h and DESIGN.md section 3.
#include "sched.h"

#include <atomic>
#include <cerrno>
#include <climits>
#include <csignal>
#include <cstdio>
#include <cstdlib>
#include <cstring>
#include <ctime>
#include <map>
#include <set>
#include <sstream>
#include <unordered_map>
#include <unordered_set>

#include <linux/futex.h>
#include <pthread.h>
#include <sys/mman.h>
#include <sys/syscall.h>
#include <sys/wait.h>
#include <unistd.h>

extern "C" {
int yk_verif_on = 0;
}

namespace ykmc {

void (*event_cb)(int, int, const void*, unsigned long long, unsigned long long) = nullptr;

double mono_now() {
    timespec ts{};
    clock_gettime(CLOCK_MONOTONIC, &ts);
    return double(ts.tv_sec) + 1e-9 * double(ts.tv_nsec);
}

static inline void futex_wait(std::atomic<int>* a, int val) {
    syscall(SYS_futex, reinterpret_cast<int*>(a), FUTEX_WAIT_PRIVATE, val, nullptr, nullptr, 0);
}
static inline void futex_wake(std::atomic<int>* a) {
    syscall(SYS_futex, reinterpret_cast<int*>(a), FUTEX_WAKE_PRIVATE, 1, nullptr, nullptr, 0);
}

enum TState { T_RUNNABLE, T_BLOCKED_SPIN, T_BLOCKED_RETRY, T_PARKED, T_JOIN, T_FINISHED, T_IDLE };

struct Thread {
    int id = 0;
    std::atomic<int> go{0};
    int state = T_IDLE;
    const void* wait_addr = nullptr;
    long own_writes = 0;
    long retry_mark = 0;
    bool pend = false;
    const void* pend_addr = nullptr;
    long npoints = 0;
    int yields = 0;
    int horizon = 0;
    bool in_op = false;
    bool forced = false;
    long forced_wseq = 0;
    const char* file = "";
    int line = 0;
    int kind = 0;
    uint64_t obs = 0;
    pthread_t th{};
    bool started = false;
    int seen_init = 0;
    bool dynamic = false;     // library thread that registered itself (init() spawned it)
    long tick_budget = 0;     // dynamic threads run only while the harness grants yields
};

struct Sched {
    Thread t[kMaxThreads];
    int n = 0;
    Harness* h = nullptr;
    const Options* opt = nullptr;
    bool active = false;
    long wseq = 0;            // completed writes
    int confirm[kMaxThreads] = {}; // consecutive forced attempts without any completed write
    uint64_t clock = 0;
    long total_points = 0;
    std::vector<Decision> decs;
    const std::vector<Deviation>* prefix = nullptr;
    size_t dev_cursor = 0;
    int verdict = V_OK;       // set by scheduler-level events (deadlock / livelock / divergence)
    std::string verdict_detail;
    std::atomic<int> done{0};
    std::atomic<int> gen{0};
    bool quit = false;
    bool released = false;
    long spurious = 0;
    bool nontrivial = false;
    // stateful
    std::vector<uint64_t> state_keys; // per decision (only when stateful)
    std::string* trace = nullptr;
    // relevance
    bool rel_on = false;
    Thread* role_thread[4] = {nullptr, nullptr, nullptr, nullptr};
    std::atomic<int> spawned{0};
};

constexpr int kConfirmRounds = 8;
static Sched S;
static thread_local Thread* tls_me = nullptr;

// ---------------------------------------------------------------------------------------------
// shared page between the exploring child and the supervising parent
// ---------------------------------------------------------------------------------------------
constexpr int kMaxDev = 96;
constexpr int kMaxViol = 8;
struct ShmViolation {
    int verdict;
    int bound;
    int ndev;
    Deviation dev[kMaxDev];
    char symptom[160];
    char detail[1536];
};
struct Shm {
    // what the child is running right now
    int cur_ndev;
    Deviation cur_dev[kMaxDev];
    int cur_bound;
    int running;          // 1 while an execution is in flight
    // terminal event recorded by the child itself before _exit (deadlock / livelock)
    int term_verdict;
    char term_detail[1024];
    int last_line;
    char last_file[128];
    volatile long heartbeat; // bumped at every hooked access: the parent uses it to tell a silent hang from slow progress
    // progress
    long executions, decisions, new_nodes, nontrivial, spurious, pruned;
    int max_decisions;
    long max_points;
    int bound_completed;
    long exec_per_bound[16];
    int capped;
    long distinct_outcomes;
    int nviol;
    ShmViolation viol[kMaxViol];
    int finished;
    int nsample_out;
    char sample_out[6][400];
    int nsample_sched;
    char sample_sched[6][400];
    int resume;           // child must resume after cur_dev at cur_bound
    int rel_rounds;
    long rel_sites;
    int infra_error;
    char infra_detail[512];
};
static Shm* shm = nullptr;
static Shm local_shm;

static void copystr(char* dst, size_t cap, const std::string& s) {
    size_t n = s.size() < cap - 1 ? s.size() : cap - 1;
    memcpy(dst, s.data(), n);
    dst[n] = 0;
}

// ---------------------------------------------------------------------------------------------
// relevance (sites that touch an address another thread also touches, one of them writing)
// ---------------------------------------------------------------------------------------------
struct SiteKey {
    const char* file;
    int line;
    bool operator==(const SiteKey& o) const { return file == o.file && line == o.line; }
};
struct SiteHash {
    size_t operator()(const SiteKey& k) const { return std::hash<const void*>()(k.file) * 31u + size_t(k.line); }
};
static std::unordered_set<SiteKey, SiteHash> rel_sites;
static bool rel_grew = false;
struct AddrInfo {
    int writer = -1;        // last writer tid (or -2 several)
    unsigned readers = 0;   // tids that read
    unsigned writers = 0;
    std::vector<SiteKey> sites;
    std::vector<int> site_tid;
    std::vector<char> site_w;
};
static std::unordered_map<const void*, AddrInfo> addr_map;

static void rel_access(int tid, bool is_write, const void* addr, const char* file, int line) {
    if (addr == nullptr) return;
    AddrInfo& a = addr_map[addr];
    SiteKey k{file, line};
    bool known = false;
    for (size_t i = 0; i < a.sites.size(); ++i) {
        if (a.sites[i] == k && a.site_tid[i] == tid) { known = true; break; }
    }
    if (!known) {
        a.sites.push_back(k);
        a.site_tid.push_back(tid);
        a.site_w.push_back(is_write ? 1 : 0);
    }
    if (is_write) a.writers |= 1u << tid; else a.readers |= 1u << tid;
    unsigned others_w = a.writers & ~(1u << tid);
    unsigned others_r = a.readers & ~(1u << tid);
    bool conflict = others_w != 0 || (is_write && others_r != 0);
    if (conflict) {
        for (size_t i = 0; i < a.sites.size(); ++i) {
            if (rel_sites.insert(a.sites[i]).second) rel_grew = true;
        }
    }
}

// ---------------------------------------------------------------------------------------------
// scheduler core
// ---------------------------------------------------------------------------------------------
[[noreturn]] static void terminal(int verdict, const std::string& detail) {
    // an execution cannot be unwound out of library code: record and leave the process.
    if (shm != nullptr) {
        shm->term_verdict = verdict;
        copystr(shm->term_detail, sizeof(shm->term_detail), detail);
    }
    if (shm == &local_shm) {
        fprintf(stderr, "ykmc: terminal event %d: %s\n", verdict, detail.c_str());
        fflush(stderr);
    }
    _exit(verdict == V_DIVERGED ? 2 : 3);
}

static inline long foreign(const Thread* me) { return S.wseq - me->own_writes; }

static void flush(Thread* me) {
    if (!me->pend) return;
    me->pend = false;
    S.wseq++;
    me->own_writes++;
    for (int i = 0; i < S.n; ++i) S.confirm[i] = 0;
    const void* a = me->pend_addr;
    for (int i = 0; i < S.n; ++i) {
        Thread& o = S.t[i];
        if (&o == me) continue;
        if (o.state == T_BLOCKED_RETRY) {
            o.state = T_RUNNABLE;
        } else if (o.state == T_BLOCKED_SPIN) {
            if (o.wait_addr == nullptr || a == nullptr || o.wait_addr == a) o.state = T_RUNNABLE;
        }
    }
}

static void wait_baton(Thread* me) {
    while (me->go.load(std::memory_order_acquire) == 0) futex_wait(&me->go, 0);
    me->go.store(0, std::memory_order_relaxed);
}

static void pass_baton(Thread* to) {
    to->go.store(1, std::memory_order_release);
    futex_wake(&to->go);
}

static unsigned enabled_mask() {
    unsigned m = 0;
    for (int i = 0; i < S.n; ++i) {
        if (S.t[i].state == T_RUNNABLE) m |= 1u << i;
    }
    return m;
}

static bool all_finished() {
    for (int i = 0; i < S.n; ++i) {
        if (S.t[i].state != T_FINISHED) return false;
    }
    return true;
}

static std::string describe_threads() {
    std::ostringstream o;
    static const char* names[] = {"runnable", "spin", "retry", "parked", "join", "finished", "idle"};
    for (int i = 0; i < S.n; ++i) {
        Thread& t = S.t[i];
        const char* f = strrchr(t.file, '/');
        o << "T" << i << ":" << names[t.state] << "@" << (f != nullptr ? f + 1 : t.file) << ":" << t.line << " ";
    }
    return o.str();
}

static uint64_t mix(uint64_t h, uint64_t v) {
    h ^= v + 0x9e3779b97f4a7c15ULL + (h << 6) + (h >> 2);
    h *= 0xff51afd7ed558ccdULL;
    h ^= h >> 33;
    return h;
}

static uint64_t state_key() {
    uint64_t k = S.h->shared_digest();
    for (int i = 0; i < S.n; ++i) {
        Thread& t = S.t[i];
        k = mix(k, uint64_t(t.npoints));
        k = mix(k, t.obs);
        k = mix(k, uint64_t(t.state) | (uint64_t(t.yields) << 8) | (uint64_t(t.pend) << 24) |
                           (uint64_t(foreign(&t) == t.retry_mark) << 25) | (uint64_t(t.forced) << 26));
        k = mix(k, reinterpret_cast<uintptr_t>(t.state == T_BLOCKED_SPIN ? t.wait_addr : nullptr));
    }
    return k;
}

// The calling thread `me` arrived at a scheduling event. me_enabled says whether it may continue.
static void decide(Thread* me, bool me_enabled, int why) {
    for (;;) {
        unsigned mask = enabled_mask();
        if (mask == 0) {
            if (all_finished()) {
                S.active = false;
                S.done.store(1, std::memory_order_release);
                futex_wake(&S.done);
                return; // only the finishing thread gets here
            }
            // nobody can run: confirmation round. Force-run every stuck thread once more.
            int pick = -1;
            for (int i = 0; i < S.n; ++i) {
                Thread& t = S.t[i];
                if (t.state == T_BLOCKED_SPIN || t.state == T_BLOCKED_RETRY) {
                    if (S.confirm[i] < kConfirmRounds && (pick < 0 || S.confirm[i] < S.confirm[pick])) pick = i;
                }
            }
            if (pick < 0) {
                terminal(V_DEADLOCK, "deadlock: no thread can make progress: " + describe_threads());
            }
            Thread& p = S.t[pick];
            if (getenv("YKMC_DEBUG_SPUR") != nullptr) fprintf(stderr, "forced T%d at %s:%d ; %s\n", pick, p.file, p.line, describe_threads().c_str());
            p.state = T_RUNNABLE;
            p.forced = true;
            p.forced_wseq = S.wseq;
            S.spurious++;
            continue;
        }
        if (me_enabled && me != nullptr && mask == (1u << me->id)) return;
        int idx = int(S.decs.size());
        int def = (me_enabled && me != nullptr) ? me->id : __builtin_ctz(mask);
        int chosen = def;
        if (S.prefix != nullptr && S.dev_cursor < S.prefix->size() && (*S.prefix)[S.dev_cursor].idx == idx) {
            chosen = (*S.prefix)[S.dev_cursor].tid;
            if (((mask >> chosen) & 1u) == 0 || chosen == def) {
                char buf[256];
                snprintf(buf, sizeof(buf), "replay divergence at decision %d: want T%d, enabled mask %x default T%d; %s", idx,
                         chosen, mask, def, describe_threads().c_str());
                terminal(V_DIVERGED, buf);
            }
            S.dev_cursor++;
        }
        Decision d{};
        d.running = me_enabled && me != nullptr ? me->id : -1;
        d.mask = mask;
        d.def = def;
        d.chosen = chosen;
        // leaving a thread that could continue costs one deviation: a preemption at a point, or not continuing after a yield
        d.cost = (me_enabled && (why == 0 || why == 2)) ? 1 : 0;
        d.why = why;
        d.line = me != nullptr ? me->line : 0;
        d.file = me != nullptr ? me->file : "";
        S.decs.push_back(d);
        if (S.opt->stateful) S.state_keys.push_back(mix(state_key(), uint64_t(why == 0 && me_enabled ? me->id + 1 : 0)));
        if (me != nullptr && chosen != me->id && me->in_op && me->state != T_FINISHED) S.nontrivial = true;
        if (S.trace != nullptr) {
            char buf[200];
            const char* f = me != nullptr ? strrchr(me->file, '/') : nullptr;
            snprintf(buf, sizeof(buf), "  #%d T%d@%s:%d mask=%x -> T%d%s\n", idx, me != nullptr ? me->id : -1,
                     f != nullptr ? f + 1 : "", me != nullptr ? me->line : 0, mask, chosen, chosen != def ? " (deviation)" : "");
            S.trace->append(buf);
        }
        if (me != nullptr && chosen == me->id) return;
        Thread* to = &S.t[chosen];
        // a finished thread (or the controller) must not touch scheduler state after the hand-off:
        // the next execution may already be resetting it
        bool leaving = me == nullptr || me->state == T_FINISHED;
        pass_baton(to);
        if (leaving) return;
        wait_baton(me);
        // resumed: we were chosen by somebody else's decision, so we are runnable again
        return;
    }
}

static inline void watchdog(Thread* me) {
    if (++S.total_points > S.opt->watchdog) {
        char buf[512];
        snprintf(buf, sizeof(buf), "livelock: more than %ld points in one execution; T%d at %s:%d; %s", S.opt->watchdog,
                 me->id, me->file, me->line, describe_threads().c_str());
        terminal(V_LIVELOCK, buf);
    }
}

static inline uint64_t read_value(const void* addr, int size) {
    switch (size) {
        case 1: return *static_cast<const volatile uint8_t*>(addr);
        case 2: return *static_cast<const volatile uint16_t*>(addr);
        case 4: return *static_cast<const volatile uint32_t*>(addr);
        case 8: return *static_cast<const volatile uint64_t*>(addr);
        default: return 0;
    }
}

static void point(int kind, int cls, const void* addr, int size, const char* file, int line) {
    Thread* me = tls_me;
    if (me == nullptr || !S.active) return;
    flush(me);
    me->npoints++;
    me->file = file;
    me->line = line;
    me->kind = kind;
    watchdog(me);
    if (shm != nullptr) {
        shm->last_line = line;
        shm->heartbeat = shm->heartbeat + 1;
    }
    bool choice = ((S.opt->cls_mask >> cls) & 1u) != 0;
    if (S.rel_on) {
        rel_access(me->id, kind != K_LOAD, addr, file, line);
        if (choice && rel_sites.count(SiteKey{file, line}) == 0) choice = false;
    }
    if (choice) decide(me, true, 0);
    if (kind != K_LOAD) {
        me->pend = true;
        me->pend_addr = addr;
    }
    if (S.opt->stateful && kind != K_STORE && kind != K_PLAINW) {
        uint64_t v = (size == 1 || size == 2 || size == 4 || size == 8) ? read_value(addr, size) : S.h->shared_digest();
        me->obs = mix(mix(me->obs, uint64_t(line)), v);
    }
    if (S.trace != nullptr) {
        static const char* kn[] = {"LOAD", "STORE", "RMW", "PLAINW"};
        char buf[200];
        const char* f = strrchr(file, '/');
        snprintf(buf, sizeof(buf), "T%d %s %s:%d\n", me->id, kn[kind & 3], f != nullptr ? f + 1 : file, line);
        S.trace->append(buf);
    }
}

static void wait_hook(int type, const void* addr, const char* file, int line) {
    Thread* me = tls_me;
    if (me == nullptr || !S.active) return;
    flush(me);
    me->file = file;
    me->line = line;
    me->npoints++;
    watchdog(me);
    if (me->forced) {
        // second arrival of a force-run thread
        me->forced = false;
        if (S.wseq == me->forced_wseq) S.confirm[me->id]++;
    }
    bool blocked;
    if (type == 0) {
        blocked = true; // spin: the failed load happened after our previous point, nobody ran since
    } else {
        blocked = foreign(me) == me->retry_mark;
    }
    if (S.trace != nullptr) {
        char buf[200];
        const char* f = strrchr(file, '/');
        snprintf(buf, sizeof(buf), "T%d WAIT%s %s:%d %s\n", me->id, type == 0 ? "(spin)" : "(retry)", f != nullptr ? f + 1 : file,
                 line, blocked ? "blocked" : "passes");
        S.trace->append(buf);
    }
    if (blocked) {
        me->state = type == 0 ? T_BLOCKED_SPIN : T_BLOCKED_RETRY;
        me->wait_addr = type == 0 ? addr : nullptr;
        decide(me, false, 1);
        me->state = T_RUNNABLE;
    }
    // the retry mark is the start of the next attempt; spin iterations inside an attempt do not move it
    if (type != 0) me->retry_mark = foreign(me);
}

static int yield_hook(const char* file, int line) {
    Thread* me = tls_me;
    if (me == nullptr || !S.active) return 0;
    flush(me);
    me->file = file;
    me->line = line;
    me->npoints++;
    watchdog(me);
    me->yields++;
    if (me->dynamic) {
        // tick driven: park unless the harness granted another wake-up
        if (me->tick_budget <= 0) {
            me->state = T_PARKED;
            for (int i = 0; i < S.n; ++i) {
                if (S.t[i].state == T_JOIN && S.t[i].wait_addr == me && S.t[i].kind == 99) S.t[i].state = T_RUNNABLE;
            }
            decide(me, false, 2);
            me->state = T_RUNNABLE;
        }
        me->tick_budget--;
        return 1;
    }
    if (me->horizon > 0 && me->yields > me->horizon && !S.released) {
        me->state = T_PARKED;
        decide(me, false, 2);
        me->state = T_RUNNABLE;
        return 1;
    }
    decide(me, true, 2);
    return 1;
}

static void thread_end(Thread* me) {
    flush(me);
    me->state = T_FINISHED;
    me->in_op = false;
    // joiners
    for (int i = 0; i < S.n; ++i) {
        if (S.t[i].state == T_JOIN && S.t[i].wait_addr == me) S.t[i].state = T_RUNNABLE;
    }
    decide(me, false, 3);
}

static void* worker_main(void* arg) {
    auto* me = static_cast<Thread*>(arg);
    int seen = me->seen_init;
    for (;;) {
        while (S.gen.load(std::memory_order_acquire) == seen) futex_wait(&S.gen, seen);
        seen = S.gen.load(std::memory_order_acquire);
        if (S.quit) return nullptr;
        if (me->id >= S.n) continue;
        tls_me = me;
        wait_baton(me);
        S.h->body(me->id);
        thread_end(me);
        tls_me = nullptr;
    }
}

static void ensure_threads(int n) {
    for (int i = 0; i < n; ++i) {
        Thread& t = S.t[i];
        t.id = i;
        if (!t.started) {
            t.started = true;
            t.seen_init = S.gen.load();
            pthread_attr_t a;
            pthread_attr_init(&a);
            pthread_attr_setstacksize(&a, 1 << 20);
            pthread_create(&t.th, &a, worker_main, &t);
            pthread_attr_destroy(&a);
        }
    }
}

// run one execution with the given deviations; fills decisions; returns harness result.
static ExecResult run_one(Harness& h, const Options& opt, const std::vector<Deviation>& prefix, std::vector<Decision>& decs_out,
                          std::vector<uint64_t>* keys_out, std::string* trace) {
    S.h = &h;
    S.opt = &opt;
    S.n = h.nthreads();
    ensure_threads(kMaxThreads < S.n ? kMaxThreads : S.n);
    if (shm != nullptr) {
        shm->cur_ndev = int(prefix.size()) < kMaxDev ? int(prefix.size()) : kMaxDev;
        for (int i = 0; i < shm->cur_ndev; ++i) shm->cur_dev[i] = prefix[size_t(i)];
        shm->running = 1;
    }
    yk_verif_on = 1;
    h.setup();
    for (int i = 0; i < S.n; ++i) {
        Thread& t = S.t[i];
        t.state = T_RUNNABLE;
        t.wait_addr = nullptr;
        t.own_writes = 0;
        t.retry_mark = 0;
        t.pend = false;
        t.npoints = 0;
        t.yields = 0;
        t.horizon = h.horizon(i);
        t.in_op = false;
        t.forced = false;
        t.file = "";
        t.line = 0;
        t.obs = 0;
        t.go.store(0);
    }
    S.wseq = 0;
    for (int& c : S.confirm) c = 0;
    S.clock = 0;
    S.total_points = 0;
    S.decs.clear();
    S.state_keys.clear();
    S.prefix = &prefix;
    S.dev_cursor = 0;
    S.verdict = V_OK;
    S.released = false;
    for (auto& rt : S.role_thread) rt = nullptr;
    S.nontrivial = false;
    S.trace = trace;
    S.done.store(0);
    addr_map.clear();
    S.active = true;
    S.gen.fetch_add(1, std::memory_order_release);
    syscall(SYS_futex, reinterpret_cast<int*>(&S.gen), FUTEX_WAKE_PRIVATE, INT_MAX, nullptr, nullptr, 0);
    decide(nullptr, false, 4);
    while (S.done.load(std::memory_order_acquire) == 0) futex_wait(&S.done, 0);
    S.active = false;
    ExecResult r;
    if (S.dev_cursor != prefix.size()) {
        char buf[200];
        snprintf(buf, sizeof(buf), "replay divergence: execution ended after %zu decisions, %zu of %zu deviations consumed",
                 S.decs.size(), S.dev_cursor, prefix.size());
        terminal(V_DIVERGED, buf);
    }
    h.finish(r);
    yk_verif_on = 0;
    decs_out = S.decs;
    if (keys_out != nullptr) *keys_out = S.state_keys;
    if (shm != nullptr) shm->running = 0;
    return r;
}

// ---------------------------------------------------------------------------------------------
// explorer
// ---------------------------------------------------------------------------------------------
std::string sched_to_string(const std::vector<Deviation>& s) {
    std::ostringstream o;
    for (size_t i = 0; i < s.size(); ++i) {
        if (i != 0) o << ",";
        o << s[i].idx << ":" << s[i].tid;
    }
    return o.str();
}
std::vector<Deviation> sched_from_string(const std::string& s) {
    std::vector<Deviation> v;
    std::istringstream in(s);
    std::string tok;
    while (std::getline(in, tok, ',')) {
        if (tok.empty()) continue;
        Deviation d{};
        if (sscanf(tok.c_str(), "%d:%d", &d.idx, &d.tid) == 2) v.push_back(d);
    }
    return v;
}

struct Frame {
    std::vector<Deviation> prefix;
    std::vector<Decision> decs;
    int cost = 0;
    size_t i = 0;     // next decision index to branch at
    int alt = 0;      // next thread id to try at i
    size_t limit = 0; // branch only at indices < limit (stateful pruning)
    long rootalt = 0; // counter of alternatives at the root (sharding)
};

static std::unordered_set<uint64_t> outcome_set;
static std::unordered_map<uint64_t, int> visited; // state key -> max remaining budget expanded

static void record_violation(const ExecResult& r, const std::vector<Deviation>& sched, int bound) {
    if (shm->nviol >= kMaxViol) return;
    ShmViolation& v = shm->viol[shm->nviol++];
    v.verdict = r.verdict;
    v.bound = bound;
    v.ndev = int(sched.size()) < kMaxDev ? int(sched.size()) : kMaxDev;
    for (int i = 0; i < v.ndev; ++i) v.dev[i] = sched[size_t(i)];
    copystr(v.symptom, sizeof(v.symptom), r.symptom);
    copystr(v.detail, sizeof(v.detail), r.detail);
}

static bool out_of_budget(const Options& opt) {
    if (opt.max_exec >= 0 && shm->executions >= opt.max_exec) return true;
    if (opt.deadline > 0 && mono_now() > opt.deadline) return true;
    return false;
}

// returns false when stopped early (cap / enough violations)
static bool account(Harness& h, const Options& opt, const ExecResult& r, const Frame& f, size_t shared_prefix_len, int bound,
                    bool count_it) {
    (void) h;
    if (count_it) {
        shm->executions++;
        shm->decisions += long(f.decs.size());
        shm->new_nodes += long(f.decs.size()) - long(shared_prefix_len);
        if (S.nontrivial) shm->nontrivial++;
        shm->spurious += S.spurious;
        if (int(f.decs.size()) > shm->max_decisions) shm->max_decisions = int(f.decs.size());
        if (S.total_points > shm->max_points) shm->max_points = S.total_points;
        uint64_t oh = std::hash<std::string>()(r.outcome);
        if (outcome_set.insert(oh).second) {
            shm->distinct_outcomes = long(outcome_set.size());
            if (shm->nsample_out < 6) copystr(shm->sample_out[shm->nsample_out++], 400, r.outcome);
        }
        if (shm->nsample_sched < 6 && (shm->executions == 1 || shm->executions == 7 || shm->executions == 50 ||
                                       shm->executions == 500 || shm->executions == 5000 || shm->executions == 50000)) {
            std::string s = "[" + sched_to_string(f.prefix) + "] decisions=" + std::to_string(f.decs.size());
            copystr(shm->sample_sched[shm->nsample_sched++], 400, s);
        }
    }
    S.spurious = 0;
    if (r.verdict != V_OK) {
        record_violation(r, f.prefix, bound);
        if (shm->nviol >= opt.stop_after_violations) return false;
    }
    return true;
}

static void dfs(Harness& h, const Options& opt, int bound, const std::vector<Deviation>* resume_after) {
    std::vector<Frame> st;
    long shard_counter = 0;
    auto run_frame = [&](const std::vector<Deviation>& prefix, int cost, bool count_it) -> bool {
        Frame f;
        f.prefix = prefix;
        f.cost = cost;
        std::vector<uint64_t> keys;
        ExecResult r = run_one(h, opt, prefix, f.decs, opt.stateful ? &keys : nullptr, nullptr);
        f.i = prefix.empty() ? 0 : size_t(prefix.back().idx) + 1;
        f.alt = 0;
        f.limit = f.decs.size();
        if (opt.stateful) {
            // cut the expansion at the first decision whose (state, remaining budget) was expanded before
            int remaining = bound - cost;
            for (size_t k = f.i; k < keys.size(); ++k) {
                auto it = visited.find(keys[k]);
                if (it != visited.end() && it->second >= remaining) {
                    f.limit = k;
                    shm->pruned++;
                    break;
                }
                visited[keys[k]] = remaining;
            }
        }
        if (r.verdict != V_OK) {
            // replay before report: the same schedule must fail the same way
            std::vector<Decision> d2;
            long sp = S.spurious;
            ExecResult r2 = run_one(h, opt, prefix, d2, nullptr, nullptr);
            S.spurious = sp;
            if (r2.verdict != r.verdict || r2.symptom != r.symptom) {
                r.verdict = V_DIVERGED;
                r.detail = "nondeterministic verdict: first run '" + r.symptom + "' second run '" + r2.symptom + "': " + r.detail;
                r.symptom = "infrastructure:nondeterministic";
            }
        }
        size_t shared = prefix.empty() ? 0 : size_t(prefix.back().idx);
        bool go_on = account(h, opt, r, f, shared, bound, count_it);
        st.push_back(std::move(f));
        return go_on;
    };

    if (resume_after != nullptr && !resume_after->empty()) {
        // rebuild the ancestors of the schedule that ended the previous child
        std::vector<Deviation> p;
        int cost = 0;
        for (size_t k = 0; k < resume_after->size(); ++k) {
            run_frame(p, cost, false);
            Frame& f = st.back();
            const Deviation& d = (*resume_after)[k];
            if (size_t(d.idx) >= f.decs.size()) terminal(V_DIVERGED, "resume: ancestor shorter than recorded deviation");
            // position the cursor just after the alternative that was taken (shard counters restart: with
            // sharding a resumed exploration may repeat or skip alternatives, so the driver never resumes sharded runs)
            f.i = size_t(d.idx);
            f.alt = d.tid + 1;
            cost += f.decs[size_t(d.idx)].cost;
            p.push_back(d);
        }
    } else {
        if (!run_frame({}, 0, opt.shard == 0)) return;
    }

    while (!st.empty()) {
        if (out_of_budget(opt)) {
            shm->capped = 1;
            return;
        }
        Frame& f = st.back();
        bool found = false;
        Deviation d{};
        int ncost = 0;
        while (f.i < f.limit) {
            const Decision& dc = f.decs[f.i];
            if (f.cost + dc.cost <= bound && __builtin_popcount(dc.mask) > 1) {
                while (f.alt < kMaxThreads) {
                    int t = f.alt++;
                    if (((dc.mask >> t) & 1u) == 0 || t == dc.def) continue;
                    if (opt.nshards > 1 && int(f.prefix.size()) == opt.shard_depth) {
                        long k = shard_counter++;
                        if (k % opt.nshards != opt.shard) continue;
                    }
                    d.idx = int(f.i);
                    d.tid = t;
                    ncost = f.cost + dc.cost;
                    found = true;
                    break;
                }
            }
            if (found) break;
            f.i++;
            f.alt = 0;
        }
        if (!found) {
            st.pop_back();
            continue;
        }
        std::vector<Deviation> np = f.prefix;
        np.push_back(d);
        // executions above the cut are run by every shard (they are needed to find the cut) but counted once
        bool count_it = opt.nshards <= 1 || int(np.size()) > opt.shard_depth || opt.shard == 0;
        if (!run_frame(np, ncost, count_it)) return;
    }
}

static void child_explore(Harness& h, const Options& opt) {
    int b0 = opt.iterate_bounds ? 0 : opt.bound;
    std::vector<Deviation> resume;
    bool resuming = shm->resume != 0;
    if (resuming) {
        b0 = shm->cur_bound;
        for (int i = 0; i < shm->cur_ndev; ++i) resume.push_back(shm->cur_dev[i]);
        shm->resume = 0;
    }
    for (int b = b0; b <= opt.bound; ++b) {
        shm->cur_bound = b;
        long before = shm->executions;
        visited.clear();
        if (opt.relevance) {
            // fixpoint: repeat the bound until no new conflicting site shows up
            S.rel_on = true;
            for (;;) {
                rel_grew = false;
                long e0 = shm->executions, d0 = shm->decisions, n0 = shm->new_nodes, t0 = shm->nontrivial;
                dfs(h, opt, b, nullptr);
                shm->rel_rounds++;
                shm->rel_sites = long(rel_sites.size());
                if (!rel_grew || shm->capped != 0 || shm->nviol >= opt.stop_after_violations) break;
                // discard the counts of the incomplete round, redo with the larger site set
                shm->executions = e0;
                shm->decisions = d0;
                shm->new_nodes = n0;
                shm->nontrivial = t0;
                visited.clear();
            }
        } else {
            dfs(h, opt, b, resuming && !resume.empty() ? &resume : nullptr);
        }
        resuming = false;
        if (b < 16) shm->exec_per_bound[b] += shm->executions - before;
        if (shm->capped != 0 || shm->nviol >= opt.stop_after_violations) break;
        shm->bound_completed = b;
    }
    shm->finished = 1;
}

static RunReport report_from_shm() {
    RunReport rr;
    Stats& s = rr.stats;
    s.executions = shm->executions;
    s.decisions = shm->decisions;
    s.new_nodes = shm->new_nodes;
    s.nontrivial = shm->nontrivial;
    s.spurious_blocks = shm->spurious;
    s.pruned_states = shm->pruned;
    s.max_decisions = shm->max_decisions;
    s.max_points = shm->max_points;
    s.bound_completed = shm->bound_completed;
    for (long e : shm->exec_per_bound) s.exec_per_bound.push_back(e);
    while (!s.exec_per_bound.empty() && s.exec_per_bound.back() == 0) s.exec_per_bound.pop_back();
    s.capped = shm->capped != 0;
    s.distinct_outcomes = shm->distinct_outcomes;
    for (int i = 0; i < shm->nsample_out; ++i) s.sample_outcomes.emplace_back(shm->sample_out[i]);
    for (int i = 0; i < shm->nsample_sched; ++i) s.sample_schedules.emplace_back(shm->sample_sched[i]);
    s.relevance_rounds = shm->rel_rounds;
    s.relevant_sites = shm->rel_sites;
    for (int i = 0; i < shm->nviol; ++i) {
        Violation v;
        v.verdict = shm->viol[i].verdict;
        v.bound = shm->viol[i].bound;
        v.symptom = shm->viol[i].symptom;
        v.detail = shm->viol[i].detail;
        for (int k = 0; k < shm->viol[i].ndev; ++k) v.schedule.push_back(shm->viol[i].dev[k]);
        rr.violations.push_back(v);
    }
    return rr;
}

RunReport explore(Harness& h, const Options& opt) {
    outcome_set.clear();
    visited.clear();
    rel_sites.clear();
    if (!opt.isolate) {
        shm = &local_shm;
        memset(static_cast<void*>(shm), 0, sizeof(Shm));
        shm->bound_completed = -1;
        child_explore(h, opt);
        return report_from_shm();
    }
    void* mem = mmap(nullptr, sizeof(Shm), PROT_READ | PROT_WRITE, MAP_SHARED | MAP_ANONYMOUS, -1, 0);
    shm = static_cast<Shm*>(mem);
    memset(mem, 0, sizeof(Shm));
    shm->bound_completed = -1;
    int restarts = 0;
    for (;;) {
        fflush(stdout);
        fflush(stderr);
        pid_t pid = fork();
        if (pid == 0) {
            for (auto& t : S.t) t.started = false;
            child_explore(h, opt);
            fflush(stdout);
            _exit(0);
        }
        int st = 0;
        {
            // wait for the child; a child that reaches no hooked access and completes no execution for kStallSeconds is spinning or
            // blocked in code the scheduler does not see (unhooked loop, lock of the harness itself): kill it and report the hang
            // with the schedule it was running instead of waiting for the driver's hard deadline
            const int kStallSeconds = 300;
            long last_hb = -1, last_ex = -1;
            long quiet_us = 0;
            long nap_us = 100; // short scenarios must not pay for the polling: start fine, back off to 100 ms
            bool stalled = false;
            for (;;) {
                pid_t w = waitpid(pid, &st, WNOHANG);
                if (w == pid) break;
                if (w < 0 && errno != EINTR) break;
                usleep(useconds_t(nap_us));
                long hb = shm->heartbeat, ex = shm->executions;
                if (hb != last_hb || ex != last_ex) {
                    last_hb = hb;
                    last_ex = ex;
                    quiet_us = 0;
                } else {
                    quiet_us += nap_us;
                }
                if (nap_us < 100000) nap_us += nap_us / 4 + 1;
                if (quiet_us >= long(kStallSeconds) * 1000000) {
                    kill(pid, SIGKILL);
                    waitpid(pid, &st, 0);
                    stalled = true;
                    break;
                }
            }
            if (stalled && shm->finished == 0 && shm->term_verdict == 0) {
                shm->term_verdict = V_LIVELOCK;
                snprintf(shm->term_detail, sizeof(shm->term_detail),
                         "no hooked access and no completed execution for %d s (last hook line %d): a thread spins or blocks where the scheduler cannot see it",
                         kStallSeconds, shm->last_line);
            }
        }
        if (shm->finished != 0) break;
        // the child died inside an execution: crash, deadlock, livelock or divergence
        ExecResult r;
        std::vector<Deviation> sched;
        for (int i = 0; i < shm->cur_ndev; ++i) sched.push_back(shm->cur_dev[i]);
        if (shm->term_verdict == V_DIVERGED) {
            shm->infra_error = 1;
            copystr(shm->infra_detail, sizeof(shm->infra_detail), shm->term_detail);
            break;
        }
        if (shm->term_verdict != 0) {
            r.verdict = shm->term_verdict;
            r.symptom = shm->term_verdict == V_DEADLOCK ? "deadlock" : "livelock";
            r.detail = shm->term_detail;
        } else {
            r.verdict = V_CRASH;
            char buf[256];
            if (WIFSIGNALED(st)) {
                snprintf(buf, sizeof(buf), "crash:signal%d", WTERMSIG(st));
            } else {
                snprintf(buf, sizeof(buf), "crash:exit%d", WEXITSTATUS(st));
            }
            r.symptom = buf;
            snprintf(buf, sizeof(buf), "child died while running schedule [%s] (last hook line %d)", sched_to_string(sched).c_str(),
                     shm->last_line);
            r.detail = buf;
        }
        shm->term_verdict = 0;
        shm->executions++;
        record_violation(r, sched, shm->cur_bound);
        if (shm->nviol >= opt.stop_after_violations || ++restarts > 64) break;
        if (sched.empty()) break; // the default schedule itself dies: nothing to resume below it
        shm->resume = 1;
    }
    RunReport rr = report_from_shm();
    if (shm->infra_error != 0) {
        Violation v;
        v.verdict = V_DIVERGED;
        v.symptom = "infrastructure:divergence";
        v.detail = shm->infra_detail;
        rr.violations.push_back(v);
    }
    munmap(mem, sizeof(Shm));
    shm = nullptr;
    return rr;
}

ExecResult replay(Harness& h, const Options& opt, const std::vector<Deviation>& sched, std::string* trace_out) {
    // run in a child so that a crash or deadlock is reported instead of killing the caller
    void* mem = mmap(nullptr, sizeof(Shm) + 8192, PROT_READ | PROT_WRITE, MAP_SHARED | MAP_ANONYMOUS, -1, 0);
    shm = static_cast<Shm*>(mem);
    memset(mem, 0, sizeof(Shm) + 8192);
    char* rbuf = static_cast<char*>(mem) + sizeof(Shm);
    fflush(stdout);
    fflush(stderr);
    pid_t pid = fork();
    if (pid == 0) {
        for (auto& t : S.t) t.started = false;
        std::vector<Decision> decs;
        std::string trace;
        ExecResult r = run_one(h, opt, sched, decs, nullptr, trace_out != nullptr ? &trace : nullptr);
        shm->viol[0].verdict = r.verdict;
        copystr(shm->viol[0].symptom, sizeof(shm->viol[0].symptom), r.symptom);
        copystr(shm->viol[0].detail, sizeof(shm->viol[0].detail), r.detail);
        copystr(rbuf, 4096, r.outcome);
        if (trace_out != nullptr) {
            FILE* f = fopen("/dev/stdout", "w");
            if (f != nullptr) {
                fputs(trace.c_str(), f);
                fclose(f);
            }
        }
        shm->finished = 1;
        _exit(0);
    }
    int st = 0;
    waitpid(pid, &st, 0);
    ExecResult r;
    if (shm->finished != 0) {
        r.verdict = shm->viol[0].verdict;
        r.symptom = shm->viol[0].symptom;
        r.detail = shm->viol[0].detail;
        r.outcome = rbuf;
    } else if (shm->term_verdict != 0) {
        r.verdict = shm->term_verdict;
        r.symptom = shm->term_verdict == V_DEADLOCK ? "deadlock" : (shm->term_verdict == V_LIVELOCK ? "livelock" : "diverged");
        r.detail = shm->term_detail;
    } else {
        r.verdict = V_CRASH;
        char buf[128];
        if (WIFSIGNALED(st)) snprintf(buf, sizeof(buf), "crash:signal%d", WTERMSIG(st));
        else snprintf(buf, sizeof(buf), "crash:exit%d", WEXITSTATUS(st));
        r.symptom = buf;
        r.detail = "child died during replay";
    }
    munmap(mem, sizeof(Shm) + 8192);
    shm = nullptr;
    return r;
}

// ---------------------------------------------------------------------------------------------
// library threads spawned inside an execution (init() / fin())
// ---------------------------------------------------------------------------------------------
static void thread_hook(int what, int role) {
    if (role < 0 || role > 3) return;
    Thread* me = tls_me;
    switch (what) {
        case 0: { // BEGIN, on the new pthread
            if (me != nullptr || !S.active) return; // a pool worker runs the body itself, or no execution in progress
            if (S.n >= kMaxThreads) terminal(V_DIVERGED, "too many dynamic threads");
            Thread* t = &S.t[S.n];
            t->id = S.n;
            t->state = T_RUNNABLE;
            t->wait_addr = nullptr;
            t->own_writes = 0;
            t->retry_mark = 0;
            t->pend = false;
            t->npoints = 0;
            t->yields = 0;
            t->horizon = 0;
            t->in_op = false;
            t->forced = false;
            t->file = "";
            t->line = 0;
            t->obs = 0;
            t->dynamic = true;
            t->tick_budget = 0;
            t->go.store(0);
            S.role_thread[role] = t;
            tls_me = t;
            S.n = S.n + 1;
            S.spawned.fetch_add(1, std::memory_order_release);
            futex_wake(&S.spawned);
            wait_baton(t);
            return;
        }
        case 2: { // SPAWNED, on the creator: wait until the child registered (it cannot run before it gets the baton)
            if (me == nullptr || !S.active) return;
            for (;;) {
                int cur = S.spawned.load(std::memory_order_acquire);
                Thread* t = S.role_thread[role];
                if (t != nullptr && t->dynamic && t->state != T_FINISHED) break;
                futex_wait(&S.spawned, cur);
            }
            return;
        }
        case 1: { // END, on the dynamic thread
            if (me == nullptr || !me->dynamic) return;
            thread_end(me);
            tls_me = nullptr;
            return;
        }
        case 3: { // JOIN, on the joiner
            if (me == nullptr || !S.active) return;
            Thread* t = S.role_thread[role];
            if (t == nullptr || t->state == T_FINISHED) return;
            flush(me);
            t->tick_budget = 1L << 40; // run to the end
            if (t->state == T_PARKED) t->state = T_RUNNABLE;
            me->state = T_JOIN;
            me->wait_addr = t;
            me->kind = 0;
            decide(me, false, 5);
            me->state = T_RUNNABLE;
            return;
        }
        default: return;
    }
}

// ---------------------------------------------------------------------------------------------
// services
// ---------------------------------------------------------------------------------------------
int self() { return tls_me != nullptr ? tls_me->id : -1; }
bool active() { return tls_me != nullptr && S.active; }
long points_of(int tid) { return S.t[tid].npoints; }
uint64_t op_begin() {
    Thread* me = tls_me;
    if (me == nullptr) return ++S.clock;
    flush(me);
    me->in_op = true;
    me->retry_mark = foreign(me);
    return ++S.clock;
}
uint64_t op_end() {
    Thread* me = tls_me;
    if (me == nullptr) return ++S.clock;
    flush(me);
    me->in_op = false;
    return ++S.clock;
}
uint64_t clock_now() { return S.clock; }
void release_parked() {
    S.released = true;
    for (int i = 0; i < S.n; ++i) {
        if (S.t[i].state == T_PARKED) S.t[i].state = T_RUNNABLE;
    }
}
// let the library thread with this role pass n sleeps, then park it again. Returns false if it is not running any more.
bool tick(int role, int n) {
    Thread* me = tls_me;
    if (me == nullptr || role < 0 || role > 3) return false;
    Thread* t = S.role_thread[role];
    if (t == nullptr || t->state == T_FINISHED) return false;
    flush(me);
    t->tick_budget += n;
    if (t->state == T_PARKED) t->state = T_RUNNABLE;
    me->state = T_JOIN;
    me->wait_addr = t;
    me->kind = 99; // woken when the target parks
    decide(me, false, 5);
    me->state = T_RUNNABLE;
    me->kind = 0;
    return t->state != T_FINISHED;
}
bool role_alive(int role) {
    Thread* t = S.role_thread[role];
    return t != nullptr && t->state != T_FINISHED;
}
void harness_point(int kind, const void* addr, int size, int line) { point(kind, C_HARNESS, addr, size, "harness", line); }
void harness_wait(const void* addr, int line) { wait_hook(0, addr, "harness", line); }

} // namespace ykmc

extern "C" {
void yk_verif_point(int kind, int cls, const void* addr, int size, const char* file, int line) {
    ykmc::point(kind, cls, addr, size, file, line);
}
void yk_verif_wait(int type, const void* addr, const char* file, int line) { ykmc::wait_hook(type, addr, file, line); }
int yk_verif_yield(const char* file, int line) { return ykmc::yield_hook(file, line); }
void yk_verif_event(int ev, const void* obj, unsigned long long a, unsigned long long b) {
    if (ykmc::event_cb != nullptr) ykmc::event_cb(ykmc::self(), ev, obj, a, b);
}
void yk_verif_thread(int what, int role) { ykmc::thread_hook(what, role); }
}
